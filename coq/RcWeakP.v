(* The weak side of the count protocol of Rc.v: weak = weak owners + token + the share the strong side holds until the
   payload is dropped; exactly one try_dealloc pending or running iff weak = 0 or a token is out.  Consequence:
   [tde_ok] (try_dealloc frees only dropped payloads), which discharges the run hypothesis [tde_run] of RcP.v and gives
   the theorems C01, C04, C05, C10 exactly as stated in RcSpec.v.  No axioms. *)
From Coq Require Import ZArith List Bool Lia.
Import ListNotations.
Require Import Params StateW DisposeW Bits StateP Rc RcSpec RcP.
Local Open Scope Z_scope.
Arguments sumZ {A} f l : simpl never.

(* ---- accounting *)
(* the weak share of the strong side: held by the object until pop_edges/drop ran, then by the FDisp117 frame *)
Definition frame_g (o : nat) (f : frame) : Z :=
  match f with FDisp117 o' _ _ _ _ => if Nat.eqb o' o then 1 else 0 | _ => 0 end.
Definition gfr (s : state) (o : nat) : Z := sumZ (fun x => sumZ (frame_g o) (frames x)) (threads s).
Definition gsh (s : state) (o : nat) (ob : obj) : Z := b2z (negb (dropped ob)) + gfr s o.

(* the part of a thread's weak credit that can be negative (increments not yet applied) with what covers it *)
Definition frame_wneg (o : nat) (f : frame) : Z :=
  match f with
  | FRet c b => handle_weak o (if b then cok c else cfail c)
  | FIncW103 o' cnt | FIncW104 o' cnt _ | FIncW105 o' cnt => if Nat.eqb o' o then - cnt else 0
  | FIncW106 o' => if Nat.eqb o' o then - 1 else 0
  | _ => 0
  end.
Definition thr_wneg (o : nat) (x : thr) : Z := sumZ (handle_weak o) (vars x) + sumZ (frame_wneg o) (frames x).
Definition thr_datt (o : nat) (x : thr) : Z := sumZ (frame_dealloc_attempt o) (frames x).
Definition thr_g (o : nat) (x : thr) : Z := sumZ (frame_g o) (frames x).

(* the unique disposer of a destructed object: the frames between the publication of DESTRUCTED and pop_edges/drop *)
Definition frame_disp (o : nat) (f : frame) : Z :=
  match f with
  | FDispEnter o' d | FDisp115 o' d | FDisp116 o' d _ => if Nat.eqb o' o && (d =? 0) then 1 else 0
  | FDispDo o' _ _ _ => if Nat.eqb o' o then 1 else 0
  | _ => 0
  end.
Definition thr_disp (o : nat) (x : thr) : Z := sumZ (frame_disp o) (frames x).
Definition disp (s : state) (o : nat) : Z := sumZ (fun x => sumZ (frame_disp o) (frames x)) (threads s).

Definition frame_wst (s : state) (f : frame) : Prop :=
  match f with
  | FDecW107 o _ false => exists ob, geto s o = Some ob /\ (freed ob = false -> wtok ob = true)
  | FIncW106 o => exists ob, geto s o = Some ob /\ (freed ob = false -> wtok ob = true) /\ weaked (word ob) = true
  | FIncW105 o _ => exists ob, geto s o = Some ob /\ weaked (word ob) = true
  | _ => True
  end.

Record wobj (s : state) (o : nat) (ob : obj) : Prop := {
  w_count : weak (word ob) = wowners s o + b2z (wtok ob) + gsh s o ob;
  w_att : 0 <= dealloc_attempts s o <= 1 /\ (dealloc_attempts s o = 1 <-> (weak (word ob) = 0 \/ wtok ob = true));
  w_weaked : weaked (word ob) = false -> weak (word ob) = 1 /\ 1 <= gsh s o ob;
}.

Definition Winv (s : state) : Prop :=
  (forall o ob, geto s o = Some ob -> freed ob = false -> wobj s o ob) /\
  (forall o, o <> O -> geto s o = None -> wowners s o = 0 /\ dealloc_attempts s o = 0 /\ gfr s o = 0) /\
  (forall t x, gett s t = Some x -> (forall o, o <> O -> 0 <= thr_wneg o x) /\ Forall (frame_wst s) (frames x)) /\
  (forall o ob, geto s o = Some ob -> destructed (word ob) = true -> disp s o + b2z (dropped ob) = 1) /\
  (forall o ob, geto s o = Some ob -> freed ob = true -> wowners s o = 0 /\ gfr s o = 0).

(* ---- non-negativity *)
Lemma handle_weak_nonneg o h : 0 <= handle_weak o h.
Proof. destruct h; cbn; try lia; apply is_o_range. Qed.

Lemma frame_weak_split o f : frame_weak o f = frame_wneg o f + (match f with FDecW107 o' _ true => if Nat.eqb o' o then 1 else 0 | _ => 0 end).
Proof. destruct f; cbn; try lia; destruct own; try lia; destruct (Nat.eqb _ _); lia. Qed.

Lemma frame_weak_ge_wneg o f : frame_wneg o f <= frame_weak o f.
Proof. rewrite frame_weak_split. destruct f; try lia. destruct own; try lia. destruct (Nat.eqb _ _); lia. Qed.

Lemma sumZ_le {A} (f g : A -> Z) l : (forall a, f a <= g a) -> sumZ f l <= sumZ g l.
Proof. intros H. induction l; [rewrite !sumZ_nil; lia|]. rewrite !sumZ_cons. specialize (H a). lia. Qed.

Lemma thr_weak_ge_wneg o x : thr_wneg o x <= thr_weak o x.
Proof. unfold thr_wneg, thr_weak. pose proof (sumZ_le (frame_wneg o) (frame_weak o) (frames x) (frame_weak_ge_wneg o)). lia. Qed.

Lemma frame_g_range o f : 0 <= frame_g o f <= 1.
Proof. destruct f; cbn; try lia. destruct (Nat.eqb _ _); lia. Qed.
Lemma gfr_nonneg s o : 0 <= gfr s o.
Proof. apply sumZ_nonneg. intros. apply sumZ_nonneg. intros. apply frame_g_range. Qed.
Lemma frame_datt_range o f : 0 <= frame_dealloc_attempt o f <= 1.
Proof. destruct f; cbn; try lia; try (destruct (Nat.eqb _ _); lia). destruct own; try lia. destruct (Nat.eqb _ _); lia. Qed.

Definition all_wneg (s : state) : Prop := forall t x, gett s t = Some x -> forall o, o <> O -> 0 <= thr_wneg o x.

Lemma wowners_nonneg s o : all_wneg s -> o <> O -> 0 <= wowners s o.
Proof.
  intros H Ho. unfold wowners. apply sumZ_nonneg. intros x Hx. destruct (In_nth_error _ _ Hx) as (n & Hn).
  pose proof (H n x Hn o Ho). pose proof (thr_weak_ge_wneg o x). lia.
Qed.

Lemma wowners_ge_thr s t x o : all_wneg s -> o <> O -> gett s t = Some x -> thr_weak o x <= wowners s o.
Proof.
  intros H Ho Hx. unfold wowners. apply (sumZ_nth_le (thr_weak o) (threads s) t x); auto.
  intros b Hb. destruct (In_nth_error _ _ Hb) as (n & Hn). pose proof (H n b Hn o Ho). pose proof (thr_weak_ge_wneg o b). lia.
Qed.

(* the consequence the strong side needs *)
Theorem Winv_tde s : Winv s -> tde_ok s.
Proof.
  intros (HA & _ & HT & _) o ob Hg Hw Hf. destruct (HA _ _ Hg Hf) as [Hc _ _].
  assert (all_wneg s) by (intros t x Hx; apply (HT t x Hx)).
  assert (Ho : o <> O) by (intros ->; discriminate).
  pose proof (wowners_nonneg s o H Ho). pose proof (gfr_nonneg s o). pose proof (b2z_range (wtok ob)).
  unfold gsh in Hc. destruct (dropped ob); auto. exfalso. unfold b2z in *. cbn [negb Z.b2z] in Hc. lia.
Qed.

Lemma Winv_all_wneg s : Winv s -> all_wneg s.
Proof. intros (_ & _ & H & _) t x Hx. apply (H t x Hx). Qed.

(* ---- plumbing *)
Lemma wowners_sett s t x y o : gett s t = Some x -> wowners (sett s t y) o = wowners s o - thr_weak o x + thr_weak o y.
Proof. unfold gett, wowners, sett; cbn [threads]. intros H. rewrite (sumZ_set_nth _ _ _ _ _ H). lia. Qed.
Lemma datt_sett s t x y o : gett s t = Some x ->
  dealloc_attempts (sett s t y) o = dealloc_attempts s o - thr_datt o x + thr_datt o y.
Proof. unfold gett, dealloc_attempts, sett; cbn [threads pending]. intros H. rewrite (sumZ_set_nth _ _ _ _ _ H). unfold thr_datt. lia. Qed.
Lemma gfr_sett s t x y o : gett s t = Some x -> gfr (sett s t y) o = gfr s o - thr_g o x + thr_g o y.
Proof. unfold gett, gfr, sett; cbn [threads]. intros H. rewrite (sumZ_set_nth _ _ _ _ _ H). unfold thr_g. lia. Qed.

Lemma disp_sett s t x y o : gett s t = Some x -> disp (sett s t y) o = disp s o - thr_disp o x + thr_disp o y.
Proof. unfold gett, disp, sett; cbn [threads]. intros H. rewrite (sumZ_set_nth _ _ _ _ _ H). unfold thr_disp. lia. Qed.
Lemma thr_disp_top o x f k : frames x = f :: k -> thr_disp o x = frame_disp o f + sumZ (frame_disp o) k.
Proof. intros H. unfold thr_disp. rewrite H, sumZ_cons. lia. Qed.

(* the three sums depend on threads and pending only *)
Definition tp_eq (s s' : state) : Prop := threads s' = threads s /\ pending s' = pending s.
Lemma wowners_tp s s' o : tp_eq s s' -> wowners s' o = wowners s o.
Proof. intros (E1 & E2). unfold wowners. rewrite E1. auto. Qed.
Lemma datt_tp s s' o : tp_eq s s' -> dealloc_attempts s' o = dealloc_attempts s o.
Proof. intros (E1 & E2). unfold dealloc_attempts. rewrite E1, E2. auto. Qed.
Lemma gfr_tp s s' o : tp_eq s s' -> gfr s' o = gfr s o.
Proof. intros (E1 & E2). unfold gfr. rewrite E1. auto. Qed.
Lemma disp_tp s s' o : tp_eq s s' -> disp s' o = disp s o.
Proof. intros (E1 & E2). unfold disp. rewrite E1. auto. Qed.
Lemma tp_eq_refl s : tp_eq s s. Proof. split; auto. Qed.
Lemma tp_eq_trans a b c : tp_eq a b -> tp_eq b c -> tp_eq a c.
Proof. intros (?&?) (?&?). split; congruence. Qed.
Lemma tp_eq_rc s s' : rc_eq s s' -> tp_eq s s'.
Proof. intros (_&_&?&?). split; auto. Qed.
Lemma tp_eq_seto s i x : tp_eq s (seto s i x).
Proof. split; [apply threads_seto|apply pending_seto]. Qed.
Lemma tp_eq_alloc s n : tp_eq s (fst (alloc s n)).
Proof. split; reflexivity. Qed.
Lemma tp_eq_set_cell s c l : tp_eq s (set_cell s c l).
Proof.
  unfold set_cell. destruct (c <? 1000); [split; reflexivity|]. destruct (geto s _); [apply tp_eq_seto|apply tp_eq_refl].
Qed.

Lemma datt_defer s k o o' :
  dealloc_attempts (defer s k o) o' = dealloc_attempts s o' + (if pkind_eqb k KDealloc && Nat.eqb o o' then 1 else 0).
Proof.
  unfold dealloc_attempts, defer, set_pending; cbn [pending threads]. rewrite sumZ_app, sumZ_cons, sumZ_nil.
  unfold pend_is; cbn [pk po]. lia.
Qed.
Lemma wowners_defer s k o o' : wowners (defer s k o) o' = wowners s o'. Proof. reflexivity. Qed.
Lemma gfr_defer s k o o' : gfr (defer s k o) o' = gfr s o'. Proof. reflexivity. Qed.

Lemma thr_weak_top o x f k : frames x = f :: k ->
  thr_weak o x = sumZ (handle_weak o) (vars x) + frame_weak o f + sumZ (frame_weak o) k.
Proof. intros H. unfold thr_weak. rewrite H, sumZ_cons. lia. Qed.
Lemma thr_wneg_top o x f k : frames x = f :: k ->
  thr_wneg o x = sumZ (handle_weak o) (vars x) + frame_wneg o f + sumZ (frame_wneg o) k.
Proof. intros H. unfold thr_wneg. rewrite H, sumZ_cons. lia. Qed.
Lemma thr_datt_top o x f k : frames x = f :: k -> thr_datt o x = frame_dealloc_attempt o f + sumZ (frame_dealloc_attempt o) k.
Proof. intros H. unfold thr_datt. rewrite H, sumZ_cons. lia. Qed.
Lemma thr_g_top o x f k : frames x = f :: k -> thr_g o x = frame_g o f + sumZ (frame_g o) k.
Proof. intros H. unfold thr_g. rewrite H, sumZ_cons. lia. Qed.

(* ---- stability of what the frames know *)
Definition wmono (s s1 : state) (ex : nat) : Prop :=
  forall o ob, geto s o = Some ob -> exists ob', geto s1 o = Some ob' /\
    (freed ob' = false -> freed ob = false) /\ (o <> ex -> freed ob' = false -> wtok ob = true -> wtok ob' = true) /\
    (weaked (word ob) = true -> weaked (word ob') = true).
Definition wdec_false_on (ex : nat) (f : frame) : bool :=
  match f with FDecW107 o _ false | FIncW106 o => Nat.eqb o ex | _ => false end.

Lemma frame_wst_mono s s' ex f : wmono s s' ex -> wdec_false_on ex f = false -> frame_wst s f -> frame_wst s' f.
Proof.
  intros Hm Hb. destruct f; cbn; auto; try (destruct own; auto).
  - intros (ob & Hg & Ht). destruct (Hm _ _ Hg) as (ob' & Hg' & H1 & H2 & H3). exists ob'. split; auto. intros Hf.
    cbn in Hb. apply Nat.eqb_neq in Hb. auto.
  - intros (ob & Hg & Hk). destruct (Hm _ _ Hg) as (ob' & Hg' & H1 & H2 & H3). exists ob'. auto.
  - intros (ob & Hg & Ht & Hk). destruct (Hm _ _ Hg) as (ob' & Hg' & H1 & H2 & H3). exists ob'. split; auto. split; auto. intros Hf.
    cbn in Hb. apply Nat.eqb_neq in Hb. auto.
Qed.
Lemma wdec_false_on_0 s f : frame_wst s f -> wdec_false_on 0 f = false.
Proof. destruct f; cbn; auto; try (destruct own; auto); intros (ob & Hg & _); destruct o; cbn in *; auto; discriminate. Qed.
Lemma frame_wst_ext s s' f : (forall o, geto s' o = geto s o) -> frame_wst s f -> frame_wst s' f.
Proof. intros H. destruct f; cbn; rewrite ?H; auto. Qed.

Lemma wstep_intro s t x s1 x' ex :
  Winv s -> gett s t = Some x -> threads s1 = threads s ->
  (forall o, o <> O -> 0 <= thr_wneg o x') -> wmono s s1 ex ->
  (forall t' x0, t' <> t -> gett s t' = Some x0 -> Forall (fun f => wdec_false_on ex f = false) (frames x0)) ->
  Forall (frame_wst s1) (frames x') ->
  (forall o, o <> O -> match geto s1 o with
                       | Some ob' => (freed ob' = false -> wobj (sett s1 t x') o ob') /\
                                     (destructed (word ob') = true -> disp (sett s1 t x') o + b2z (dropped ob') = 1) /\
                                     (freed ob' = true -> wowners (sett s1 t x') o = 0 /\ gfr (sett s1 t x') o = 0)
                       | None => wowners (sett s1 t x') o = 0 /\ dealloc_attempts (sett s1 t x') o = 0 /\ gfr (sett s1 t x') o = 0
                       end) ->
  Winv (sett s1 t x').
Proof.
  intros (HA & HB & HC & HD & HF) Hx Ht Hneg Hm Hex Hst Hobj.
  assert (Hx1 : gett s1 t = Some x) by (unfold gett in *; rewrite Ht; auto).
  split; [|split; [|split; [|split]]].
  4:{ intros o ob Hg. rewrite geto_sett in Hg. assert (o <> O) by (intros ->; discriminate).
      specialize (Hobj o H). rewrite Hg in Hobj. apply Hobj. }
  4:{ intros o ob Hg. rewrite geto_sett in Hg. assert (o <> O) by (intros ->; discriminate).
      specialize (Hobj o H). rewrite Hg in Hobj. apply Hobj. }
  - intros o ob Hg. rewrite geto_sett in Hg. assert (o <> O) by (intros ->; discriminate).
    specialize (Hobj o H). rewrite Hg in Hobj. apply Hobj.
  - intros o Ho Hg. rewrite geto_sett in Hg. specialize (Hobj o Ho). rewrite Hg in Hobj. auto.
  - intros t' x0 Hg. destruct (Nat.eq_dec t t') as [<-|Hne].
    + rewrite (gett_sett_eq _ _ _ _ Hx1) in Hg. inversion Hg; subst. split; auto.
    + rewrite gett_sett_neq in Hg by auto. assert (Hg0 : gett s t' = Some x0) by (unfold gett in *; rewrite <- Ht; auto).
      destruct (HC _ _ Hg0) as (W1 & W2). split; auto.
      eapply Forall_impl; [intros f; apply frame_wst_ext; intros; apply geto_sett|].
      specialize (Hex _ _ (not_eq_sym Hne) Hg0). rewrite Forall_forall in *. intros f Hf. eapply frame_wst_mono; eauto.
Qed.

Lemma Wex0 s t : Winv s ->
  forall t' x0, t' <> t -> gett s t' = Some x0 -> Forall (fun f => wdec_false_on 0 f = false) (frames x0).
Proof.
  intros (_ & _ & HC & _) t' x0 _ Hg. destruct (HC _ _ Hg) as (_ & H).
  eapply Forall_impl; [|exact H]. intros f. apply wdec_false_on_0.
Qed.

(* ---- steps the weak side does not see *)
Definition wview (ob ob' : obj) : Prop :=
  weak (word ob') = weak (word ob) /\ weaked (word ob') = weaked (word ob) /\ wtok ob' = wtok ob /\
  freed ob' = freed ob /\ dropped ob' = dropped ob /\ destructed (word ob') = destructed (word ob).
Definition wviews (s s1 : state) : Prop :=
  forall i, match geto s i with
            | Some ob => exists ob', geto s1 i = Some ob' /\ wview ob ob'
            | None => geto s1 i = None
            end.

Lemma wobj_transfer s s' o ob ob' :
  wobj s o ob -> wview ob ob' -> wowners s' o = wowners s o -> dealloc_attempts s' o = dealloc_attempts s o ->
  gfr s' o = gfr s o -> wobj s' o ob'.
Proof.
  intros [C A K] (E1 & E2 & E3 & E4 & E5 & E6) Ew Ea Eg. unfold gsh in *.
  constructor; unfold gsh; rewrite ?Ew, ?Ea, ?Eg, ?E1, ?E2, ?E3, ?E5; auto.
Qed.

Lemma wstep_neutral s s1 t x x1 new k f :
  Winv s -> gett s t = Some x -> frames x = f :: k -> threads s1 = threads s ->
  (forall o, sumZ (pend_is KDealloc o) (pending s1) = sumZ (pend_is KDealloc o) (pending s)) ->
  wviews s s1 ->
  (forall o, o <> O -> sumZ (handle_weak o) (vars x1) + sumZ (frame_weak o) new = sumZ (handle_weak o) (vars x) + frame_weak o f) ->
  (forall o, o <> O -> sumZ (handle_weak o) (vars x) + frame_wneg o f <= sumZ (handle_weak o) (vars x1) + sumZ (frame_wneg o) new) ->
  (forall o, sumZ (frame_dealloc_attempt o) new = frame_dealloc_attempt o f) ->
  (forall o, sumZ (frame_g o) new = frame_g o f) ->
  (forall o, sumZ (frame_disp o) new = frame_disp o f) ->
  Forall (frame_wst s) new ->
  Winv (sett s1 t (with_frames x1 (new ++ k))).
Proof.
  intros HW Hx Hf Hth Hpe Hv Hcw Hcn Hca Hcg Hcd Hst.
  pose proof HW as (HA & HB & HC & HD & HF). destruct (HC _ _ Hx) as (Nx & Sx). rewrite Hf in Sx.
  assert (Hx1 : gett s1 t = Some x) by (unfold gett in *; rewrite Hth; auto).
  assert (Hm : wmono s s1 0).
  { intros o ob Hg. specialize (Hv o). rewrite Hg in Hv. destruct Hv as (ob' & Hg' & E1 & E2 & E3 & E4 & E5 & E6).
    exists ob'. rewrite E2, E3, E4. auto. }
  apply (wstep_intro s t x s1 _ 0); auto.
  - intros o Ho. unfold thr_wneg. cbn [vars frames with_frames]. rewrite sumZ_app.
    specialize (Nx o Ho). rewrite (thr_wneg_top _ _ _ _ Hf) in Nx. specialize (Hcn o Ho). lia.
  - apply Wex0; auto.
  - cbn [frames with_frames]. inversion Sx; subst. apply Forall_app. split.
    + eapply Forall_impl; [|exact Hst]. intros a Ha. eapply frame_wst_mono; eauto. eapply wdec_false_on_0; eauto.
    + eapply Forall_impl; [|eassumption]. intros a Ha. eapply frame_wst_mono; eauto. eapply wdec_false_on_0; eauto.
  - intros o Ho.
    assert (Ew : wowners (sett s1 t (with_frames x1 (new ++ k))) o = wowners s o).
    { rewrite (wowners_sett _ _ _ _ _ Hx1). unfold wowners at 1. rewrite Hth. fold (wowners s o).
      unfold thr_weak at 2. cbn [vars frames with_frames]. rewrite sumZ_app, (thr_weak_top _ _ _ _ Hf). specialize (Hcw o Ho). lia. }
    assert (Ea : dealloc_attempts (sett s1 t (with_frames x1 (new ++ k))) o = dealloc_attempts s o).
    { rewrite (datt_sett _ _ _ _ _ Hx1). unfold dealloc_attempts at 1. rewrite Hth, Hpe. fold (dealloc_attempts s o).
      unfold thr_datt at 2. cbn [frames with_frames]. rewrite sumZ_app, (thr_datt_top _ _ _ _ Hf), Hca. lia. }
    assert (Eg : gfr (sett s1 t (with_frames x1 (new ++ k))) o = gfr s o).
    { rewrite (gfr_sett _ _ _ _ _ Hx1). unfold gfr at 1. rewrite Hth. fold (gfr s o).
      unfold thr_g at 2. cbn [frames with_frames]. rewrite sumZ_app, (thr_g_top _ _ _ _ Hf), Hcg. lia. }
    assert (Ed : disp (sett s1 t (with_frames x1 (new ++ k))) o = disp s o).
    { rewrite (disp_sett _ _ _ _ _ Hx1). unfold disp at 1. rewrite Hth. fold (disp s o).
      unfold thr_disp at 2. cbn [frames with_frames]. rewrite sumZ_app, (thr_disp_top _ _ _ _ Hf), Hcd. lia. }
    specialize (Hv o). destruct (geto s o) as [ob|] eqn:Hg.
    + destruct Hv as (ob' & Hg' & Ev). rewrite Hg'. destruct Ev as (E1 & E2 & E3 & E4 & E5 & E6). split.
      * intros Hfr. apply (wobj_transfer s _ o ob ob'); auto; [apply HA; auto; congruence | repeat split; auto].
      * split; [intros Hdd; rewrite Ed, E5; apply HD; auto; congruence|].
        intros Hfr. rewrite Ew, Eg. apply (HF _ _ Hg). congruence.
    + rewrite Hv, Ew, Ea, Eg. auto.
Qed.

(* ---- the strong-side word updates do not touch the weak field or WEAKED *)
Definition updw (w w' : Z) : Prop := weak w' = weak w /\ weaked w' = weaked w /\ destructed w' = destructed w.
Lemma updw_of_fields w w' : W w -> W w' -> f_weak w' = f_weak w -> f_weaked w' = f_weaked w ->
  f_destructed w' = f_destructed w -> updw w w'.
Proof. intros Hw Hw' E1 E2 E3. repeat split; rewrite ?weak_spec, ?weaked_spec, ?destructed_spec by auto; rewrite ?E1, ?E2, ?E3; auto. Qed.
Lemma updw_trans a b c : updw a b -> updw b c -> updw a c.
Proof. intros (?&?&?) (?&?&?). repeat split; congruence. Qed.

Lemma updw_fadd_count w : W w -> strong w + 1 < 2 ^ 29 -> updw w (fadd w COUNT).
Proof.
  intros Hw Hs. rewrite strong_spec in Hs by auto. unfold fadd. change COUNT with 1.
  assert (E : wrap 64 (w + 1) = w + 1) by (apply wrap_small; fields; lia). rewrite E.
  apply updw_of_fields; auto; fields; lia.
Qed.
Lemma updw_with_epoch w e : W w -> updw w (with_epoch w e).
Proof. intros Hw. rewrite with_epoch_spec' by auto. apply updw_of_fields; auto; fields; lia. Qed.
Lemma updw_sub_strong w c : W w -> 0 <= c <= strong w -> updw w (sub_strong w c).
Proof.
  intros Hw Hc. rewrite strong_spec in Hc by auto. rewrite sub_strong_spec by (fields; lia).
  apply updw_of_fields; auto; fields; lia.
Qed.
Lemma updw_add_strong w c : W w -> 0 <= c -> strong w + c < 2 ^ 29 -> updw w (add_strong w c).
Proof.
  intros Hw Hc Hs. rewrite strong_spec in Hs by auto. rewrite add_strong_spec by (fields; lia).
  apply updw_of_fields; auto; fields; lia.
Qed.
Lemma updw_dec_word cur r cnt : W cur -> 0 <= cnt <= strong cur -> updw cur (sub_strong (with_epoch cur r) cnt).
Proof.
  intros Hw Hc. destruct (upd_with_epoch cur r Hw) as (Hw1 & Hs1 & _).
  eapply updw_trans; [apply updw_with_epoch; auto|]. apply updw_sub_strong; auto. lia.
Qed.
Lemma updw_kid_word wc e : W wc -> 1 <= strong wc -> updw wc (with_epoch (sub_strong wc 1) e).
Proof.
  intros Hw Hc. destruct (upd_sub_strong wc 1 Hw ltac:(lia)) as (Hw1 & _).
  apply (updw_trans _ (sub_strong wc 1)); [apply updw_sub_strong; auto; lia|]. apply updw_with_epoch; auto.
Qed.

(* ---- [wviews] of composite states *)
Lemma wview_refl ob : wview ob ob. Proof. repeat split. Qed.
Lemma wviews_geto s s1 : (forall o, geto s1 o = geto s o) -> wviews s s1.
Proof. intros H i. rewrite H. destruct (geto s i); auto. eexists; split; eauto. apply wview_refl. Qed.
Lemma wviews_refl s : wviews s s. Proof. apply wviews_geto; auto. Qed.
Lemma wviews_trans a b c : wviews a b -> wviews b c -> wviews a c.
Proof.
  intros H1 H2 i. specialize (H1 i). destruct (geto a i) as [ob|].
  - destruct H1 as (ob' & Hg' & E). specialize (H2 i). rewrite Hg' in H2. destruct H2 as (ob'' & Hg'' & E').
    exists ob''. split; auto. destruct E as (?&?&?&?&?&?), E' as (?&?&?&?&?&?). repeat split; congruence.
  - specialize (H2 i). rewrite H1 in H2. auto.
Qed.
Lemma wviews_seto s i ob X : geto s i = Some ob -> wview ob X -> wviews s (seto s i X).
Proof.
  intros Hg Hv j. destruct (Nat.eq_dec i j) as [<-|Hne].
  - rewrite Hg, (geto_seto_eq _ _ _ _ Hg). eauto.
  - rewrite geto_seto_neq by auto. destruct (geto s j); auto. eexists; split; eauto. apply wview_refl.
Qed.
Lemma wviews_sett s S t X : wviews s S -> wviews s (sett S t X).
Proof. intros H. eapply wviews_trans; eauto. apply wviews_geto. auto. Qed.
Lemma wviews_defer s S k o : wviews s S -> wviews s (defer S k o).
Proof. intros H. eapply wviews_trans; eauto. apply wviews_geto. auto. Qed.
Lemma wviews_rc s S S' : rc_eq S S' -> wviews s S -> wviews s S'.
Proof. intros R H. eapply wviews_trans; eauto. apply wviews_geto. intros; apply geto_rc_eq; auto. Qed.
Lemma wviews_set_pending s S p : wviews s S -> wviews s (set_pending S p).
Proof. intros H. eapply wviews_trans; eauto. apply wviews_geto. auto. Qed.
Lemma wviews_set_cell s S c l : wviews s S -> wviews s (set_cell S c l).
Proof.
  intros H. eapply wviews_trans; eauto. unfold set_cell. destruct (c <? 1000).
  - apply wviews_geto. auto.
  - destruct (geto S _) eqn:Hg; [|apply wviews_refl]. eapply wviews_seto; eauto. repeat split.
Qed.

(* ---- weak-neutral frames *)
Ltac prefix FS k :=
  lazymatch FS with
  | k => constr:(@nil frame)
  | ?a :: ?r => let p := prefix r k in constr:(a :: p)
  | ?l ++ k => constr:(l)
  | ?l ++ ?r => let p := prefix r k in constr:(l ++ p)
  end.
Ltac reshape k :=
  match goal with |- Winv (sett ?S ?T (with_frames ?X ?FS)) =>
    let p := prefix FS k in change FS with (p ++ k) end.

Ltac threads_solve :=
  repeat first [ reflexivity | rewrite threads_seto
               | rewrite (proj1 (tp_eq_rc _ _ (rc_eq_see_epoch _ _)))
               | rewrite (proj1 (tp_eq_rc _ _ (rc_eq_set_err _ _)))
               | rewrite (proj1 (tp_eq_set_cell _ _ _))
               | progress cbn [threads defer set_pending] ].
Ltac pending_solve :=
  intros;
  repeat first [ reflexivity | rewrite pending_seto
               | rewrite (proj2 (tp_eq_rc _ _ (rc_eq_see_epoch _ _)))
               | rewrite (proj2 (tp_eq_rc _ _ (rc_eq_set_err _ _)))
               | rewrite (proj2 (tp_eq_set_cell _ _ _))
               | progress (cbn [pending defer set_pending]; rewrite ?sumZ_app, ?sumZ_cons, ?sumZ_nil; unfold pend_is; cbn [pk po pkind_eqb andb]) ];
  try lia.
Ltac wviews_solve :=
  repeat first
    [ apply wviews_refl
    | apply wviews_sett | apply wviews_defer | apply wviews_set_cell | apply wviews_set_pending
    | eapply wviews_rc; [apply rc_eq_see_epoch|]
    | eapply wviews_rc; [apply rc_eq_set_err|] ].
Ltac wcredits :=
  intros; rewrite ?sumZ_app, ?sumZ_cons, ?sumZ_nil;
  cbn [frame_weak frame_wneg frame_dealloc_attempt frame_g frame_disp handle_weak]; try lia.

Ltac wneutral Hm Hx Hf k :=
  open_micro Hm Hx Hf; destruct_in Hm; inversion Hm; subst; clear Hm; reshape k;
  eapply wstep_neutral; try eassumption;
  try threads_solve; try pending_solve; wviews_solve; try solve [wcredits]; try solve [repeat constructor].

Ltac wneutralB Hm Hx Hf k HB' :=
  open_micro Hm Hx Hf; destruct_in Hm; inversion Hm; subst; clear Hm; try solve [kill_err' HB']; reshape k;
  eapply wstep_neutral; try eassumption;
  try threads_solve; try pending_solve; wviews_solve; try solve [wcredits]; try solve [repeat constructor].

Lemma wmicro_FStart s t rec s' obs x k :
  Winv s -> gett s t = Some x -> frames x = FStart :: k -> micro s t rec = Some (s', obs) -> Winv s'.
Proof. intros HW Hx Hf Hm. wneutral Hm Hx Hf k. Qed.
Lemma wmicro_FOpEnd s t rec s' obs x k opc :
  Winv s -> gett s t = Some x -> frames x = FOpEnd opc :: k -> micro s t rec = Some (s', obs) -> Winv s'.
Proof. intros HW Hx Hf Hm. wneutral Hm Hx Hf k. Qed.
Lemma wmicro_FMay s t rec s' obs x k :
  Winv s -> gett s t = Some x -> frames x = FMay :: k -> micro s t rec = Some (s', obs) -> Winv s'.
Proof. intros HW Hx Hf Hm. wneutral Hm Hx Hf k. Qed.
Lemma wmicro_FEndClosure s t rec s' obs x k :
  Winv s -> gett s t = Some x -> frames x = FEndClosure :: k -> micro s t rec = Some (s', obs) -> Winv s'.
Proof. intros HW Hx Hf Hm. wneutral Hm Hx Hf k. Qed.
Lemma wmicro_FUnpinTmp s t rec s' obs x k :
  Winv s -> gett s t = Some x -> frames x = FUnpinTmp :: k -> micro s t rec = Some (s', obs) -> Winv s'.
Proof. intros HW Hx Hf Hm. wneutral Hm Hx Hf k. Qed.

Lemma wmicro_FDecS110 s t rec s' obs x k o cnt tmp own :
  Winv s -> gett s t = Some x -> frames x = FDecS110 o cnt tmp own :: k -> micro s t rec = Some (s', obs) -> Winv s'.
Proof. intros HW Hx Hf Hm. wneutral Hm Hx Hf k. Qed.
Lemma wmicro_FDecS111 s t rec s' obs x k o cnt r tmp own :
  Winv s -> gett s t = Some x -> frames x = FDecS111 o cnt r tmp own :: k -> micro s t rec = Some (s', obs) -> Winv s'.
Proof. intros HW Hx Hf Hm. wneutral Hm Hx Hf k. Qed.
Lemma wmicro_FTD113 s t rec s' obs x k o :
  Winv s -> gett s t = Some x -> frames x = FTD113 o :: k -> micro s t rec = Some (s', obs) -> Winv s'.
Proof. intros HW Hx Hf Hm. wneutral Hm Hx Hf k. Qed.
Lemma wmicro_FDispEnter s t rec s' obs x k o d :
  Winv s -> gett s t = Some x -> frames x = FDispEnter o d :: k -> micro s t rec = Some (s', obs) -> Winv s'.
Proof.
  intros HW Hx Hf Hm. wneutral Hm Hx Hf k.
  wcredits. match goal with H : (?d >=? DEPTH_CAP) = true |- _ => apply Z.geb_le in H; unfold DEPTH_CAP in H; destruct (Z.eqb_spec d 0); [lia|] end.
  rewrite andb_false_r. lia.
Qed.
Lemma wmicro_FDisp115 s t rec s' obs x k o d :
  Winv s -> bounded s' -> gett s t = Some x -> frames x = FDisp115 o d :: k -> micro s t rec = Some (s', obs) -> Winv s'.
Proof. intros HW HB' Hx Hf Hm. wneutralB Hm Hx Hf k HB'. all: repeat constructor; eexists; split; eauto. Qed.
Lemma wmicro_FDisp116 s t rec s' obs x k o d w :
  Winv s -> Inv' s -> gett s t = Some x -> frames x = FDisp116 o d w :: k -> micro s t rec = Some (s', obs) -> Winv s'.
Proof.
  intros HW HI Hx Hf Hm.
  pose proof (Inv'_thr_wf _ _ _ HI Hx) as (_ & Hwf0 & _). rewrite Hf in Hwf0. apply Forall_inv in Hwf0. cbn [frame_wf] in Hwf0.
  wneutral Hm Hx Hf k.
  all: wcredits.
  all: try match goal with H : (0 <? ?d) = true |- _ => apply Z.ltb_lt in H; destruct (Z.eqb_spec d 0); [lia|]; rewrite andb_false_r; lia end.
  all: try match goal with H : (0 <? ?d) = false |- _ => apply Z.ltb_ge in H; destruct (Z.eqb_spec d 0); [|lia]; rewrite andb_true_r; lia end.
  all: match goal with H : dispose_here _ _ _ = false |- _ =>
         unfold dispose_here in H; apply orb_false_elim in H as (H & _); cbn [ROOT_ALWAYS andb] in H; rewrite H, andb_false_r; lia end.
Qed.
Lemma wmicro_FKids s t rec s' obs x k d ne c outs :
  Winv s -> gett s t = Some x -> frames x = FKids d ne c outs :: k -> micro s t rec = Some (s', obs) -> Winv s'.
Proof. intros HW Hx Hf Hm. wneutral Hm Hx Hf k. Qed.
Lemma wmicro_FKid118 s t rec s' obs x k c d ne cu outs :
  Winv s -> gett s t = Some x -> frames x = FKid118 c d ne cu outs :: k -> micro s t rec = Some (s', obs) -> Winv s'.
Proof. intros HW Hx Hf Hm. wneutral Hm Hx Hf k. Qed.
Lemma wmicro_FCas120 s t rec s' obs x k c e des src d :
  Winv s -> gett s t = Some x -> frames x = FCas120 c e des src d :: k -> micro s t rec = Some (s', obs) -> Winv s'.
Proof. intros HW Hx Hf Hm. wneutral Hm Hx Hf k. Qed.
Lemma wmicro_FIncW103 s t rec s' obs x k o cnt :
  Winv s -> bounded s' -> gett s t = Some x -> frames x = FIncW103 o cnt :: k -> micro s t rec = Some (s', obs) -> Winv s'.
Proof. intros HW HB' Hx Hf Hm. wneutralB Hm Hx Hf k HB'. all: repeat constructor; eexists; split; eauto. Qed.

(* ---- strong-side frames that rewrite the word *)
Ltac wv_seto Hg :=
  eapply wviews_seto; [exact Hg | repeat split; cbn [word wtok freed dropped with_word with_tok]; auto; try congruence].
Ltac wstep_obj Hg :=
  eapply wstep_neutral; try eassumption;
  try threads_solve; try pending_solve;
  repeat first [ apply wviews_refl | apply wviews_sett | apply wviews_defer | wv_seto Hg ];
  try solve [wcredits]; try solve [repeat constructor].

Lemma wmicro_FIncS s t rec s' obs x k o c f :
  f = FIncS100 o c \/ f = FIncS101 o c ->
  Winv s -> Inv' s -> counted_ok s -> bounded s -> bounded s' -> gett s t = Some x -> frames x = f :: k ->
  micro s t rec = Some (s', obs) -> Winv s'.
Proof.
  intros Hff HW HI HC HB HB' Hx Hf Hm. destruct HC as (HC & _).
  pose proof (Inv'_thr_wf _ _ _ HI Hx) as (_ & Hfw & _). rewrite Hf in Hfw. apply Forall_inv in Hfw.
  assert (Hc : exists l, cok c = HRc l /\ (cign c = false -> cfail c = HNone)).
  { destruct Hff as [-> | ->]; destruct Hfw as (_ & l & E1 & _ & E3); eauto. }
  destruct Hc as (l & Hok & Hfail).
  assert (Hco : forall o0, handle_weak o0 (cok c) = 0) by (intros; rewrite Hok; reflexivity).
  destruct Hff as [-> | ->]; open_micro Hm Hx Hf.
  all: destruct (geto s o) as [ob|] eqn:Hg; [|inversion Hm; subst; kill_err' HB'].
  all: destruct (bounded_word _ _ _ HB Hg) as (Hw & Hs & _); unfold LIM in Hs.
  all: destruct (updw_fadd_count _ Hw ltac:(lia)) as (U1 & U2 & U3).
  all: assert (Hcf : destructed (word ob) = true -> forall o0, handle_weak o0 (cfail c) = 0).
  all: try (intros Hd o0; rewrite Hfail; [reflexivity|]; destruct (cign c) eqn:Hcg; auto;
       first [ rewrite (HC t x o c k ob Hx (or_introl Hf) Hcg Hg) in Hd | rewrite (HC t x o c k ob Hx (or_intror Hf) Hcg Hg) in Hd ]; discriminate).
  all: destruct (destructed (word ob)) eqn:Hd; [|destruct (strong (word ob) =? 0)]; inversion Hm; subst s' obs; clear Hm; reshape k.
  all: wstep_obj Hg.
  all: wcredits; rewrite ?Hco, ?Hcf by auto; lia.
Qed.

Lemma wmicro_FDecS112 s t rec s' obs x k o cnt r cur tmp own :
  Winv s -> Inv' s -> bounded s -> bounded s' -> gett s t = Some x -> frames x = FDecS112 o cnt r cur tmp own :: k ->
  micro s t rec = Some (s', obs) -> Winv s'.
Proof.
  intros HW HI HB HB' Hx Hf Hm. open_micro Hm Hx Hf.
  destruct (geto s o) as [ob|] eqn:Hg; [|inversion Hm; subst; kill_err' HB'].
  destruct (Z.eqb_spec (word ob) cur) as [<-|Hne].
  2:{ inversion Hm; subst s' obs; clear Hm. reshape k. wstep_obj Hg. }
  destruct (bounded_word _ _ _ HB Hg) as (Hw & _).
  destruct (decs112_facts _ _ _ _ _ _ _ _ _ _ HI Hx Hf Hg) as (Hc & _).
  destruct (updw_dec_word (word ob) r cnt Hw ltac:(lia)) as (U1 & U2 & U3).
  destruct tmp; destruct (strong (word ob) =? cnt); inversion Hm; subst s' obs; clear Hm; reshape k.
  all: wstep_obj Hg.
Qed.

Lemma wmicro_FKid119 s t rec s' obs x k c wc nxt d ne cu outs :
  Winv s -> Inv' s -> bounded s -> bounded s' -> gett s t = Some x -> frames x = FKid119 c wc nxt d ne cu outs :: k ->
  micro s t rec = Some (s', obs) -> Winv s'.
Proof.
  intros HW HI HB HB' Hx Hf Hm. open_micro Hm Hx Hf.
  destruct (geto s (fst c)) as [ob|] eqn:Hg; [|inversion Hm; subst; kill_err' HB'].
  destruct (Z.eqb_spec (word ob) wc) as [<-|Hne].
  2:{ inversion Hm; subst s' obs; clear Hm. reshape k. wstep_obj Hg. }
  destruct (bounded_word _ _ _ HB Hg) as (Hw & _).
  destruct (kid119_facts _ _ _ _ _ _ _ _ _ _ _ HI Hx Hf Hg) as (Hc & e & ->).
  destruct (updw_kid_word (word ob) e Hw Hc) as (U1 & U2 & U3).
  pose proof (Inv'_thr_wf _ _ _ HI Hx) as (_ & Hwf0 & _). rewrite Hf in Hwf0. apply Forall_inv in Hwf0. destruct Hwf0 as (Hd0 & _).
  destruct (strong _ =? 0); inversion Hm; subst s' obs; clear Hm; reshape k; wstep_obj Hg.
  wcredits. destruct (Z.eqb_spec (d + 1) 0); [lia|]. rewrite andb_false_r. lia.
Qed.

Lemma wmicro_FIsND109 s t rec s' obs x k o old r c :
  Winv s -> Inv' s -> bounded s -> bounded s' -> gett s t = Some x -> frames x = FIsND109 o old r c :: k ->
  micro s t rec = Some (s', obs) -> Winv s'.
Proof.
  intros HW HI HB HB' Hx Hf Hm.
  pose proof (Inv'_thr_wf _ _ _ HI Hx) as (_ & Hfw & _). rewrite Hf in Hfw. apply Forall_inv in Hfw.
  destruct Hfw as (_ & Hn1 & Hn2).
  assert (Hc1 : forall o0, handle_weak o0 (cok c) = 0) by (intros; apply nostrong_weak; auto).
  assert (Hc2 : forall o0, handle_weak o0 (cfail c) = 0) by (intros; apply nostrong_weak; auto).
  open_micro Hm Hx Hf.
  destruct (geto s o) as [ob|] eqn:Hg; [|inversion Hm; subst; kill_err' HB'].
  destruct (bounded_word _ _ _ HB Hg) as (Hw & Hs & _). unfold LIM in Hs.
  destruct (Z.eqb_spec (word ob) old) as [<-|Hne].
  - assert (U : updw (word ob) (with_epoch (if strong (word ob) =? 0 then add_strong (word ob) 1 else word ob) r)).
    { destruct (strong (word ob) =? 0).
      - destruct (upd_add_strong (word ob) 1 Hw ltac:(lia) ltac:(lia)) as (Hw1 & _).
        apply (updw_trans _ (add_strong (word ob) 1)); [apply updw_add_strong; auto; lia|]. apply updw_with_epoch; auto.
      - apply updw_with_epoch; auto. }
    destruct U as (U1 & U2 & U3). inversion Hm; subst s' obs; clear Hm; reshape k. wstep_obj Hg. all: wcredits; rewrite ?Hc1, ?Hc2; lia.
  - destruct (destructed (word ob)); inversion Hm; subst s' obs; clear Hm; reshape k; wstep_obj Hg.
    all: wcredits; rewrite ?Hc1, ?Hc2; lia.
Qed.

(* ---- variable-writing frames *)
Lemma sumZ_setv_weak o x d h : (d < length (vars x))%nat -> getv x d = HNone ->
  sumZ (handle_weak o) (set_nth (vars x) d h) = sumZ (handle_weak o) (vars x) + handle_weak o h.
Proof.
  intros Hd Hn. pose proof (getv_nth x d Hd) as E. rewrite Hn in E.
  rewrite (sumZ_set_nth _ _ _ _ _ E). cbn. lia.
Qed.
Lemma sumZ_setv_weak0 o x d h : getv x d = HNone -> handle_weak o h = 0 ->
  sumZ (handle_weak o) (set_nth (vars x) d h) = sumZ (handle_weak o) (vars x).
Proof.
  intros Hn Hh. destruct (Nat.lt_ge_cases d (length (vars x))) as [Hd|Hd].
  - rewrite sumZ_setv_weak by auto. lia.
  - rewrite set_nth_none by (apply nth_error_None; auto). auto.
Qed.

Ltac get_wf HI Hx Hf Hwf0 Hdn0 :=
  pose proof (Inv'_thr_wf _ _ _ HI Hx) as (_ & Hwf0 & _ & _ & Hdn0 & _); rewrite Hf in Hwf0, Hdn0;
  apply Forall_inv in Hwf0; apply Forall_inv in Hdn0.

Lemma wmicro_FRet s t rec s' obs x k c b :
  Winv s -> Inv' s -> gett s t = Some x -> frames x = FRet c b :: k -> micro s t rec = Some (s', obs) -> Winv s'.
Proof.
  intros HW HI Hx Hf Hm. get_wf HI Hx Hf Hwf0 Hdn0. destruct Hwf0 as (Hcd & _). cbn in Hdn0.
  open_micro Hm Hx Hf. inversion Hm; subst s' obs; clear Hm. reshape k.
  eapply wstep_neutral; try eassumption; try threads_solve; try pending_solve; wviews_solve; try solve [repeat constructor].
  all: wcredits; vars_norm; rewrite sumZ_setv_weak by auto; lia.
Qed.

Lemma wmicro_FIsND108 s t rec s' obs x k o c :
  Winv s -> Inv' s -> bounded s' -> gett s t = Some x -> frames x = FIsND108 o c :: k -> micro s t rec = Some (s', obs) -> Winv s'.
Proof.
  intros HW HI HB' Hx Hf Hm. get_wf HI Hx Hf Hwf0 Hdn0. destruct Hwf0 as (_ & Hn1 & Hn2).
  assert (Hc2 : forall o0, handle_weak o0 (cfail c) = 0) by (intros; apply nostrong_weak; auto).
  open_micro Hm Hx Hf. destruct_in Hm; inversion Hm; subst; clear Hm; try solve [kill_err' HB']; reshape k.
  all: eapply wstep_neutral; try eassumption; try threads_solve; try pending_solve; wviews_solve; try solve [repeat constructor].
  all: wcredits; rewrite ?Hc2; lia.
Qed.

Lemma wmicro_FLoad121 s t rec s' obs x k c d :
  Winv s -> Inv' s -> bounded s' -> gett s t = Some x -> frames x = FLoad121 c d :: k -> micro s t rec = Some (s', obs) -> Winv s'.
Proof.
  intros HW HI HB' Hx Hf Hm. get_wf HI Hx Hf Hwf0 Hdn0. cbn in Hdn0.
  open_micro Hm Hx Hf. destruct_in Hm; inversion Hm; subst; clear Hm; try solve [kill_err' HB']; reshape k.
  eapply wstep_neutral; try eassumption; try threads_solve; try pending_solve; wviews_solve; try solve [repeat constructor].
  all: wcredits; vars_norm; rewrite sumZ_setv_weak0 by auto; lia.
Qed.

Lemma dec_frames_weak o o' cnt tmp :
  sumZ (frame_weak o) (dec_frames o' cnt tmp) = 0 /\ sumZ (frame_wneg o) (dec_frames o' cnt tmp) = 0 /\
  sumZ (frame_dealloc_attempt o) (dec_frames o' cnt tmp) = 0 /\ sumZ (frame_g o) (dec_frames o' cnt tmp) = 0 /\
  sumZ (frame_disp o) (dec_frames o' cnt tmp) = 0 /\ forall s, Forall (frame_wst s) (dec_frames o' cnt tmp).
Proof. destruct o'; cbn [dec_frames]; rewrite ?sumZ_cons, ?sumZ_nil; cbn; repeat split; intros; repeat constructor. Qed.

Ltac wswap HI Hx Hf k HB' :=
  let Hwf0 := fresh "Hwf0" in let Hdn0 := fresh "Hdn0" in
  get_wf HI Hx Hf Hwf0 Hdn0; cbn in Hdn0;
  match goal with Hm : micro _ _ _ = _ |- _ =>
    open_micro Hm Hx Hf; destruct_in Hm; inversion Hm; subst; clear Hm; try solve [kill_err' HB']; reshape k end;
  (eapply wstep_neutral; try eassumption; try threads_solve; try pending_solve; wviews_solve; try solve [repeat constructor]);
  try (match goal with |- context [dec_frames ?o1 1 false] =>
        destruct (dec_frames_weak O o1 1 false) as (_ & _ & _ & _ & _ & D5); try apply D5 end);
  try (intros; match goal with |- context [sumZ (?F ?o0) (dec_frames ?o1 1 false)] =>
        pose proof (dec_frames_weak o0 o1 1 false) as (? & ? & ? & ? & ? & _) end; wcredits;
        repeat match goal with E : sumZ _ (dec_frames _ _ _) = 0 |- _ => rewrite ?E; clear E end; lia);
  try (wcredits; vars_norm; rewrite ?sumZ_setv_weak0 by auto; lia).

Lemma wmicro_FSwap122 s t rec s' obs x k c new d :
  Winv s -> Inv' s -> bounded s' -> gett s t = Some x -> frames x = FSwap122 c new d :: k -> micro s t rec = Some (s', obs) -> Winv s'.
Proof. intros HW HI HB' Hx Hf Hm. wswap HI Hx Hf k HB'. Qed.
Lemma wmicro_FSwap120 s t rec s' obs x k c new d :
  Winv s -> Inv' s -> bounded s' -> gett s t = Some x -> frames x = FSwap120 c new d :: k -> micro s t rec = Some (s', obs) -> Winv s'.
Proof. intros HW HI HB' Hx Hf Hm. wswap HI Hx Hf k HB'. Qed.

Lemma wmicro_FCas123 s t rec s' obs x k c e desraw src d :
  Winv s -> Inv' s -> bounded s' -> gett s t = Some x -> frames x = FCas123 c e desraw src d :: k ->
  micro s t rec = Some (s', obs) -> Winv s'.
Proof.
  intros HW HI HB' Hx Hf Hm. get_wf HI Hx Hf Hwf0 Hdn0. cbn in Hdn0. destruct Hwf0 as (Hsrc & Hd & Hne).
  pose proof (Inv'_thr_wf _ _ _ HI Hx) as (_ & _ & Htop & _). unfold top_ok in Htop. rewrite Hf in Htop. destruct Htop as (ts & Htop).
  open_micro Hm Hx Hf. destruct_in Hm; inversion Hm; subst; clear Hm; try solve [kill_err' HB']; reshape k.
  all: eapply wstep_neutral; try eassumption; try threads_solve; try pending_solve; wviews_solve; try solve [repeat constructor].
  all: wcredits; vars_norm; rewrite ?sumZ_setv_weak0 by auto; try lia.
  all: pose proof (getv_nth x src Hsrc) as E1; rewrite Htop in E1;
       assert (E2 : nth_error (set_nth (vars x) src HNone) d = Some HNone)
         by (rewrite nth_error_set_nth_neq by auto; rewrite (getv_nth x d Hd), Hdn0; auto);
       rewrite (sumZ_set_nth _ _ _ _ _ E2), (sumZ_set_nth _ _ _ _ _ E1); cbn [handle_weak]; lia.
Qed.

(* a step that changes the weak view of object i *)
Lemma wstep_one s s1 t x x1 new k f i ob ob' ex :
  Winv s -> gett s t = Some x -> frames x = f :: k -> threads s1 = threads s ->
  geto s i = Some ob -> (forall o, geto s1 o = geto (seto s i ob') o) ->
  (forall o, o <> O -> sumZ (handle_weak o) (vars x) + frame_wneg o f <= sumZ (handle_weak o) (vars x1) + sumZ (frame_wneg o) new) ->
  Forall (frame_wst s1) new ->
  (freed ob' = false -> freed ob = false) ->
  (i <> ex -> freed ob' = false -> wtok ob = true -> wtok ob' = true) ->
  (weaked (word ob) = true -> weaked (word ob') = true) ->
  (forall t' x0, t' <> t -> gett s t' = Some x0 -> Forall (fun f => wdec_false_on ex f = false) (frames x0)) ->
  Forall (fun f => wdec_false_on ex f = false) k ->
  (forall o, o <> i -> o <> O ->
     wowners (sett s1 t (with_frames x1 (new ++ k))) o = wowners s o /\
     dealloc_attempts (sett s1 t (with_frames x1 (new ++ k))) o = dealloc_attempts s o /\
     gfr (sett s1 t (with_frames x1 (new ++ k))) o = gfr s o /\
     disp (sett s1 t (with_frames x1 (new ++ k))) o = disp s o) ->
  (freed ob' = false -> wobj (sett s1 t (with_frames x1 (new ++ k))) i ob') ->
  (destructed (word ob') = true -> disp (sett s1 t (with_frames x1 (new ++ k))) i + b2z (dropped ob') = 1) ->
  (freed ob' = true -> wowners (sett s1 t (with_frames x1 (new ++ k))) i = 0 /\ gfr (sett s1 t (with_frames x1 (new ++ k))) i = 0) ->
  Winv (sett s1 t (with_frames x1 (new ++ k))).
Proof.
  intros HW Hx Hf Hth Hgi Hgeto Hcn Hst Mf Mt Mw Hex Hexk Hoth Hi Hid Hif.
  pose proof HW as (HA & HB & HC & HD & HF). destruct (HC _ _ Hx) as (Nx & Sx). rewrite Hf in Sx.
  assert (Hm : wmono s s1 ex).
  { intros o ob0 Hg0. rewrite Hgeto. destruct (Nat.eq_dec i o) as [<-|Hne].
    - rewrite (geto_seto_eq _ _ _ _ Hgi). exists ob'. rewrite Hgi in Hg0. inversion Hg0; subst. auto.
    - rewrite geto_seto_neq by auto. exists ob0. auto. }
  apply (wstep_intro s t x s1 _ ex); auto.
  - intros o Ho. unfold thr_wneg. cbn [vars frames with_frames]. rewrite sumZ_app.
    specialize (Nx o Ho). rewrite (thr_wneg_top _ _ _ _ Hf) in Nx. specialize (Hcn o Ho). lia.
  - cbn [frames with_frames]. inversion Sx; subst. apply Forall_app. split; auto.
    rewrite Forall_forall in *. intros a Ha. eapply frame_wst_mono; eauto.
  - intros o Ho. rewrite Hgeto. destruct (Nat.eq_dec i o) as [<-|Hne].
    + rewrite (geto_seto_eq _ _ _ _ Hgi). auto.
    + rewrite geto_seto_neq by auto. destruct (Hoth o (not_eq_sym Hne) Ho) as (Ew & Ea & Eg & Ed).
      destruct (geto s o) as [ob0|] eqn:Hg.
      * split; [intros Hfr; apply (wobj_transfer s _ o ob0 ob0); auto; apply wview_refl|].
        split; [intros Hdd; rewrite Ed; auto|]. intros Hfr. rewrite Ew, Eg. apply (HF _ _ Hg); auto.
      * rewrite Ew, Ea, Eg. auto.
Qed.

(* ---- frames that change the weak view *)
Lemma wsums_seto s i ob' t x y o : gett s t = Some x ->
  wowners (sett (seto s i ob') t y) o = wowners s o - thr_weak o x + thr_weak o y /\
  dealloc_attempts (sett (seto s i ob') t y) o = dealloc_attempts s o - thr_datt o x + thr_datt o y /\
  gfr (sett (seto s i ob') t y) o = gfr s o - thr_g o x + thr_g o y /\
  disp (sett (seto s i ob') t y) o = disp s o - thr_disp o x + thr_disp o y.
Proof.
  intros Hx. assert (Hx1 : gett (seto s i ob') t = Some x) by (rewrite gett_seto; auto).
  rewrite (wowners_sett _ _ _ _ _ Hx1), (datt_sett _ _ _ _ _ Hx1), (gfr_sett _ _ _ _ _ Hx1), (disp_sett _ _ _ _ _ Hx1).
  rewrite (wowners_tp _ _ _ (tp_eq_seto s i ob')), (datt_tp _ _ _ (tp_eq_seto s i ob')),
    (gfr_tp _ _ _ (tp_eq_seto s i ob')), (disp_tp _ _ _ (tp_eq_seto s i ob')). auto.
Qed.
Lemma wsums_defer_seto s i ob' kd od t x y o : gett s t = Some x ->
  wowners (sett (defer (seto s i ob') kd od) t y) o = wowners s o - thr_weak o x + thr_weak o y /\
  dealloc_attempts (sett (defer (seto s i ob') kd od) t y) o =
    dealloc_attempts s o + (if pkind_eqb kd KDealloc && Nat.eqb od o then 1 else 0) - thr_datt o x + thr_datt o y /\
  gfr (sett (defer (seto s i ob') kd od) t y) o = gfr s o - thr_g o x + thr_g o y /\
  disp (sett (defer (seto s i ob') kd od) t y) o = disp s o - thr_disp o x + thr_disp o y.
Proof.
  intros Hx. assert (Hx1 : gett (defer (seto s i ob') kd od) t = Some x) by (rewrite gett_defer, gett_seto; auto).
  rewrite (wowners_sett _ _ _ _ _ Hx1), (datt_sett _ _ _ _ _ Hx1), (gfr_sett _ _ _ _ _ Hx1), (disp_sett _ _ _ _ _ Hx1).
  rewrite wowners_defer, datt_defer, gfr_defer.
  change (disp (defer (seto s i ob') kd od) o) with (disp (seto s i ob') o).
  rewrite (wowners_tp _ _ _ (tp_eq_seto s i ob')), (datt_tp _ _ _ (tp_eq_seto s i ob')),
    (gfr_tp _ _ _ (tp_eq_seto s i ob')), (disp_tp _ _ _ (tp_eq_seto s i ob')). auto.
Qed.

Lemma disp_zero_live s o ob : Inv' s -> geto s o = Some ob -> destructed (word ob) = false -> disp s o = 0.
Proof.
  intros (_ & _ & HT) Hg Hd. unfold disp. apply sumZ_zero. intros x Hx. destruct (In_nth_error _ _ Hx) as (n & Hn).
  destruct (HT _ _ Hn) as (_ & Sx). apply sumZ_zero. intros f Hf. rewrite Forall_forall in Sx. specialize (Sx f Hf).
  destruct f; cbn [frame_disp]; auto.
  1-3: destruct (Nat.eqb_spec o0 o) as [->|]; cbn [andb]; auto; destruct (Z.eqb_spec depth 0) as [->|]; auto;
       cbn in Sx; destruct (Sx eq_refl) as (ob0 & Hg0 & Hd0); rewrite Hg in Hg0; inversion Hg0; subst; congruence.
  destruct (Nat.eqb_spec o0 o) as [->|]; auto. cbn in Sx. destruct Sx as (ob0 & Hg0 & Hd0). rewrite Hg in Hg0; inversion Hg0; subst; congruence.
Qed.

Lemma wd_weak w : W w -> weak (with_destructed w true) = weak w /\ weaked (with_destructed w true) = weaked w.
Proof.
  intros Hw. destruct (with_destructed_indep w true Hw) as ([Hw' _ E1 E2 _ _] & _).
  rewrite !weak_spec, !weaked_spec by auto. rewrite E1, E2; auto.
Qed.

Lemma Wexk0 s f k : Forall (frame_wst s) (f :: k) -> Forall (fun f => wdec_false_on 0 f = false) k.
Proof. intros H. inversion H; subst. eapply Forall_impl; [|eassumption]. intros a. apply wdec_false_on_0. Qed.

Ltac wsums Hx :=
  repeat first
    [ rewrite (proj1 (wsums_defer_seto _ _ _ _ _ _ _ _ _ Hx))
    | rewrite (proj1 (proj2 (wsums_defer_seto _ _ _ _ _ _ _ _ _ Hx)))
    | rewrite (proj1 (proj2 (proj2 (wsums_defer_seto _ _ _ _ _ _ _ _ _ Hx))))
    | rewrite (proj2 (proj2 (proj2 (wsums_defer_seto _ _ _ _ _ _ _ _ _ Hx))))
    | rewrite (proj1 (wsums_seto _ _ _ _ _ _ _ Hx))
    | rewrite (proj1 (proj2 (wsums_seto _ _ _ _ _ _ _ Hx)))
    | rewrite (proj1 (proj2 (proj2 (wsums_seto _ _ _ _ _ _ _ Hx))))
    | rewrite (proj2 (proj2 (proj2 (wsums_seto _ _ _ _ _ _ _ Hx)))) ].
Ltac wtops Hf :=
  rewrite ?(thr_weak_top _ _ _ _ Hf), ?(thr_datt_top _ _ _ _ Hf), ?(thr_g_top _ _ _ _ Hf), ?(thr_disp_top _ _ _ _ Hf);
  unfold thr_weak, thr_datt, thr_g, thr_disp; cbn [vars frames with_frames];
  rewrite ?sumZ_app, ?sumZ_cons, ?sumZ_nil;
  cbn [frame_weak frame_wneg frame_dealloc_attempt frame_g frame_disp handle_weak pkind_eqb andb].

Lemma wmicro_FTD114 s t rec s' obs x k o old :
  Winv s -> Inv' s -> bounded s -> bounded s' -> gett s t = Some x -> frames x = FTD114 o old :: k ->
  micro s t rec = Some (s', obs) -> Winv s'.
Proof.
  intros HW HI HB HB' Hx Hf Hm. pose proof HW as (HA & HN & HT & HD & HF). destruct (HT _ _ Hx) as (Nx & Sx). rewrite Hf in Sx.
  open_micro Hm Hx Hf.
  destruct (geto s o) as [ob|] eqn:Hg; [|inversion Hm; subst; kill_err' HB'].
  destruct (bounded_word _ _ _ HB Hg) as (Hw & _).
  assert (Hfa : frame_attempt o (FTD114 o old) = 1) by (cbn; rewrite Nat.eqb_refl; auto).
  destruct (attempt_tok s t x o _ k ob HI Hx Hf Hfa Hg) as (Hd & _ & _).
  pose proof HI as (HIA & _). destruct (live_facts _ _ _ (HIA _ _ Hg) Hd) as (_ & _ & _ & Jd & Jf & _).
  destruct (Z.eqb_spec (word ob) old) as [<-|Hne]; [|destruct (0 <? strong (word ob))];
    inversion Hm; subst s' obs; clear Hm; reshape k; try (wstep_obj Hg; fail).
  destruct (wd_weak _ Hw) as (E1 & E2). destruct (with_destructed_true _ Hw) as (_ & Hd' & _).
  eapply (wstep_one s _ t x x _ k _ o ob _ 0 HW Hx Hf (threads_seto _ _ _) Hg); auto;
    try (intros; reflexivity); try (apply Wex0; auto); try (eapply Wexk0; eauto); try solve [repeat constructor]; try solve [cbn [word freed with_word]; intros; congruence]; try solve [wcredits].
  - intros o0 Ho0 Hn0. wsums Hx. wtops Hf. destruct (Nat.eqb_spec o o0); [congruence|]. cbn [andb]. lia.
  - intros _. pose proof (HA _ _ Hg Jf) as [C A K]. unfold gsh in *. constructor; unfold gsh; cbn [word wtok dropped with_word];
      wsums Hx; wtops Hf; rewrite ?E1, ?E2; auto; try lia.
    match goal with |- context [dealloc_attempts s o - ?a + ?b] => replace (dealloc_attempts s o - a + b) with (dealloc_attempts s o) by lia end. exact A.
  - intros _. wsums Hx. wtops Hf. rewrite (disp_zero_live s o ob) by auto. rewrite Nat.eqb_refl. cbn [word dropped with_word].
    rewrite Jd. cbn [andb Z.eqb b2z Z.b2z]. lia.
Qed.

Lemma wmicro_FDisp130 s t rec s' obs x k o d w c :
  Winv s -> Inv' s -> bounded s -> bounded s' -> gett s t = Some x -> frames x = FDisp130 o d w c :: k ->
  micro s t rec = Some (s', obs) -> Winv s'.
Proof.
  intros HW HI HB HB' Hx Hf Hm. pose proof HW as (HA & HN & HT & HD & HF). destruct (HT _ _ Hx) as (Nx & Sx). rewrite Hf in Sx.
  pose proof (Inv'_thr_wf _ _ _ HI Hx) as (_ & Hwf0 & _). rewrite Hf in Hwf0. apply Forall_inv in Hwf0. cbn [frame_wf] in Hwf0.
  open_micro Hm Hx Hf.
  destruct (geto s o) as [ob|] eqn:Hg; [|inversion Hm; subst; kill_err' HB'].
  destruct (bounded_word _ _ _ HB Hg) as (Hw & _).
  assert (Hfa : frame_attempt o (FDisp130 o d w c) = 1).
  { cbn. rewrite Nat.eqb_refl. destruct (Z.ltb_spec 0 d); auto; lia. }
  destruct (attempt_tok s t x o _ k ob HI Hx Hf Hfa Hg) as (Hd & _ & _).
  pose proof HI as (HIA & _). destruct (live_facts _ _ _ (HIA _ _ Hg) Hd) as (_ & _ & _ & Jd & Jf & _).
  destruct ((strong w =? 0) && (word ob =? w)) eqn:Hc; inversion Hm; subst s' obs; clear Hm; reshape k; try (wstep_obj Hg; fail).
  apply andb_prop in Hc as (_ & He). apply Z.eqb_eq in He. subst w.
  destruct (wd_weak _ Hw) as (E1 & E2). destruct (with_destructed_true _ Hw) as (_ & Hd' & _).
  eapply (wstep_one s _ t x x _ k _ o ob _ 0 HW Hx Hf (threads_seto _ _ _) Hg); auto;
    try (intros; reflexivity); try (apply Wex0; auto); try (eapply Wexk0; eauto); try solve [repeat constructor]; try solve [cbn [word freed with_word]; intros; congruence]; try solve [wcredits].
  - intros o0 Ho0 Hn0. wsums Hx. wtops Hf. destruct (Nat.eqb_spec o o0); [congruence|]. cbn [andb]. lia.
  - intros _. pose proof (HA _ _ Hg Jf) as [C A K]. unfold gsh in *. constructor; unfold gsh; cbn [word wtok dropped with_word];
      wsums Hx; wtops Hf; rewrite ?E1, ?E2; auto; try lia.
    match goal with |- context [dealloc_attempts s o - ?a + ?b] => replace (dealloc_attempts s o - a + b) with (dealloc_attempts s o) by lia end. exact A.
  - intros _. wsums Hx. wtops Hf. rewrite (disp_zero_live s o ob) by auto. rewrite Nat.eqb_refl. cbn [word dropped with_word].
    rewrite Jd. cbn [andb Z.eqb b2z Z.b2z]. lia.
Qed.

Lemma frame_disp_range o f : 0 <= frame_disp o f <= 1.
Proof. destruct f; cbn; try lia; try (destruct (_ && _); lia). destruct (Nat.eqb _ _); lia. Qed.
Lemma disp_ge_top s t x o f k : gett s t = Some x -> frames x = f :: k -> frame_disp o f <= disp s o.
Proof.
  intros Hx Hf. unfold disp.
  pose proof (sumZ_nth_le (fun x => sumZ (frame_disp o) (frames x)) (threads s) t x) as H.
  cbv beta in H. rewrite Hf, sumZ_cons in H.
  assert (0 <= sumZ (frame_disp o) k) by (apply sumZ_nonneg; intros; apply frame_disp_range).
  assert (forall b, In b (threads s) -> 0 <= sumZ (frame_disp o) (frames b)) by (intros; apply sumZ_nonneg; intros; apply frame_disp_range).
  specialize (H H1 Hx). lia.
Qed.

Lemma wmicro_FDispDo s t rec s' obs x k o d w c :
  Winv s -> Inv' s -> bounded s' -> gett s t = Some x -> frames x = FDispDo o d w c :: k ->
  micro s t rec = Some (s', obs) -> Winv s'.
Proof.
  intros HW HI HB' Hx Hf Hm. pose proof HW as (HA & HN & HT & HD & HF). destruct (HT _ _ Hx) as (Nx & Sx). rewrite Hf in Sx.
  pose proof HI as (HIA & _ & HIT). destruct (HIT _ _ Hx) as (_ & Stx). rewrite Hf in Stx. apply Forall_inv in Stx. cbn in Stx.
  destruct Stx as (ob & Hg & Hd).
  open_micro Hm Hx Hf. rewrite Hg in Hm. inversion Hm; subst s' obs; clear Hm; reshape k.
  pose proof (disp_ge_top s t x o _ k Hx Hf) as Hge. cbn [frame_disp] in Hge. rewrite Nat.eqb_refl in Hge.
  pose proof (HD _ _ Hg Hd) as Hdd. pose proof (b2z_range (dropped ob)).
  assert (Jd : dropped ob = false) by (destruct (dropped ob); auto; cbn in *; lia).
  eapply (wstep_one s _ t x x _ k _ o ob _ 0 HW Hx Hf (threads_seto _ _ _) Hg); auto;
    try (intros; reflexivity); try (apply Wex0; auto); try (eapply Wexk0; eauto); try solve [repeat constructor]; try solve [cbn [word freed with_word]; intros; congruence]; try solve [wcredits].
  - intros o0 Ho0 Hn0. wsums Hx. wtops Hf. destruct (Nat.eqb_spec o o0); [congruence|]. lia.
  - cbn [freed]. intros Hfr. pose proof (HA _ _ Hg Hfr) as [C A K]. unfold gsh in *. rewrite Jd in *. cbn [negb b2z Z.b2z] in *.
    constructor; unfold gsh; cbn [word wtok dropped negb b2z Z.b2z]; wsums Hx; wtops Hf; rewrite ?Nat.eqb_refl; auto; try lia;
      try (match goal with |- context [dealloc_attempts s o - ?a + ?b] => replace (dealloc_attempts s o - a + b) with (dealloc_attempts s o) by lia end; exact A);
      try (intros Hk; specialize (K Hk); lia).
  - intros _. cbn [dropped]. wsums Hx. wtops Hf. rewrite Nat.eqb_refl. rewrite Jd in Hdd. cbn [b2z Z.b2z] in *. lia.
  - cbn [freed]. intros Hfr. pose proof (j_freed _ _ _ (HIA _ _ Hg) Hfr). congruence.
Qed.

Lemma geto_seto_same s i ob o : geto s i = Some ob -> geto s o = geto (seto s i ob) o.
Proof.
  intros Hg. destruct (Nat.eq_dec i o) as [<-|Hne]; [rewrite (geto_seto_eq _ _ _ _ Hg); auto|rewrite geto_seto_neq; auto].
Qed.
Lemma wsums_plain s t x y o : gett s t = Some x ->
  wowners (sett s t y) o = wowners s o - thr_weak o x + thr_weak o y /\
  dealloc_attempts (sett s t y) o = dealloc_attempts s o - thr_datt o x + thr_datt o y /\
  gfr (sett s t y) o = gfr s o - thr_g o x + thr_g o y /\
  disp (sett s t y) o = disp s o - thr_disp o x + thr_disp o y.
Proof. intros Hx. rewrite (wowners_sett _ _ _ _ _ Hx), (datt_sett _ _ _ _ _ Hx), (gfr_sett _ _ _ _ _ Hx), (disp_sett _ _ _ _ _ Hx). auto. Qed.
Ltac wsums0 Hx :=
  repeat first
    [ rewrite (proj1 (wsums_plain _ _ _ _ _ Hx))
    | rewrite (proj1 (proj2 (wsums_plain _ _ _ _ _ Hx)))
    | rewrite (proj1 (proj2 (proj2 (wsums_plain _ _ _ _ _ Hx))))
    | rewrite (proj2 (proj2 (proj2 (wsums_plain _ _ _ _ _ Hx)))) ].

Lemma gfr_ge_top s t x o f k : gett s t = Some x -> frames x = f :: k -> frame_g o f <= gfr s o.
Proof.
  intros Hx Hf. unfold gfr.
  pose proof (sumZ_nth_le (fun x => sumZ (frame_g o) (frames x)) (threads s) t x) as H.
  cbv beta in H. rewrite Hf, sumZ_cons in H.
  assert (0 <= sumZ (frame_g o) k) by (apply sumZ_nonneg; intros; apply frame_g_range).
  assert (forall b, In b (threads s) -> 0 <= sumZ (frame_g o) (frames b)) by (intros; apply sumZ_nonneg; intros; apply frame_g_range).
  specialize (H H1 Hx). lia.
Qed.

Lemma wmicro_FDisp117 s t rec s' obs x k o d ne c outs :
  Winv s -> Inv' s -> bounded s' -> gett s t = Some x -> frames x = FDisp117 o d ne c outs :: k ->
  micro s t rec = Some (s', obs) -> Winv s'.
Proof.
  intros HW HI HB' Hx Hf Hm. pose proof HW as (HA & HN & HT & HD & HF). destruct (HT _ _ Hx) as (Nx & Sx). rewrite Hf in Sx.
  pose proof HI as (HIA & _ & HIT). destruct (HIT _ _ Hx) as (_ & Stx). rewrite Hf in Stx. apply Forall_inv in Stx. cbn in Stx.
  destruct Stx as (ob & Hg & Hdr).
  open_micro Hm Hx Hf. rewrite Hg in Hm.
  pose proof (gfr_ge_top s t x o _ k Hx Hf) as Hgt. cbn [frame_g] in Hgt. rewrite Nat.eqb_refl in Hgt.
  assert (Hnf : freed ob = false) by (destruct (freed ob) eqn:E; auto; destruct (HF _ _ Hg E); lia).
  assert (Ho : o <> O) by (intros ->; discriminate).
  destruct (weaked (word ob)) eqn:Hwk; inversion Hm; subst s' obs; clear Hm; reshape k.
  - eapply (wstep_one s s t x x _ k _ o ob ob 0 HW Hx Hf eq_refl Hg); auto;
      try (apply Wex0; auto); try (eapply Wexk0; eauto); try solve [repeat constructor]; try solve [cbn [word freed with_word]; intros; congruence]; try solve [wcredits].
    + intros; apply geto_seto_same; auto.
    + intros o0 Ho0 Hn0. wsums0 Hx. wtops Hf. destruct (Nat.eqb_spec o o0); [congruence|]. lia.
    + intros Hfr. pose proof (HA _ _ Hg Hfr) as [C A K]. unfold gsh in *.
      constructor; unfold gsh; wsums0 Hx; wtops Hf; rewrite ?Nat.eqb_refl; auto; try lia;
        try (match goal with |- context [dealloc_attempts s o - ?a + ?b] => replace (dealloc_attempts s o - a + b) with (dealloc_attempts s o) by lia end; exact A).
      congruence.
    + intros Hdd. wsums0 Hx. wtops Hf. specialize (HD _ _ Hg Hdd). lia.
  - eapply (wstep_one s _ t x x _ k _ o ob _ 0 HW Hx Hf (threads_seto _ _ _) Hg); auto;
      try (intros; reflexivity); try (apply Wex0; auto); try (eapply Wexk0; eauto); try solve [repeat constructor]; try solve [cbn [word freed with_word]; intros; congruence]; try solve [wcredits];
      try (cbn [freed]; intros; discriminate).
    + intros o0 Ho0 Hn0. wsums Hx. wtops Hf. destruct (Nat.eqb_spec o o0); [congruence|]. lia.
    + cbn [word dropped]. intros Hdd. wsums Hx. wtops Hf. specialize (HD _ _ Hg Hdd). lia.
    + intros _. destruct (HA _ _ Hg Hnf) as [C A K]. destruct (K Hwk) as (K1 & K2). unfold gsh in *. rewrite Hdr in *. cbn [negb b2z Z.b2z] in *.
      pose proof (wowners_nonneg s o (Winv_all_wneg _ HW) Ho). pose proof (b2z_range (wtok ob)).
      wsums Hx. wtops Hf. rewrite Nat.eqb_refl. unfold b2z in *. lia.
Qed.

Lemma thr_datt_nonneg o x : 0 <= thr_datt o x.
Proof. apply sumZ_nonneg. intros. apply frame_datt_range. Qed.
Lemma pend_dealloc_nonneg o l : 0 <= sumZ (pend_is KDealloc o) l.
Proof. apply sumZ_nonneg. intros. unfold pend_is. destruct (_ && _); lia. Qed.
Lemma datt_ge_thr s t x o : gett s t = Some x -> thr_datt o x <= dealloc_attempts s o.
Proof.
  intros Hx. unfold dealloc_attempts.
  pose proof (sumZ_nth_le (thr_datt o) (threads s) t x (fun b _ => thr_datt_nonneg o b) Hx).
  pose proof (pend_dealloc_nonneg o (pending s)). unfold thr_datt in *. lia.
Qed.
Lemma datt_ge_thr2 s t t' x x' o : t <> t' -> gett s t = Some x -> gett s t' = Some x' ->
  thr_datt o x + thr_datt o x' <= dealloc_attempts s o.
Proof.
  intros Hne Hx Hx'. unfold dealloc_attempts.
  pose proof (sumZ_nth2_le (thr_datt o) (threads s) t t' x x' (fun b _ => thr_datt_nonneg o b) Hne Hx Hx').
  pose proof (pend_dealloc_nonneg o (pending s)). unfold thr_datt in *. lia.
Qed.
Lemma wdec_false_datt o f : wdec_false_on o f = true -> frame_dealloc_attempt o f = 1 \/ f = FIncW106 o.
Proof.
  destruct f; cbn; try discriminate.
  - destruct own; try discriminate. intros H; rewrite H; auto.
  - intros H. apply Nat.eqb_eq in H. subst. auto.
Qed.

Lemma wuniq_other s t x o tmp k : wcounted_ok s -> gett s t = Some x -> frames x = FDecW107 o tmp false :: k -> dealloc_attempts s o <= 1 ->
  forall t' x0, t' <> t -> gett s t' = Some x0 -> Forall (fun f => wdec_false_on o f = false) (frames x0).
Proof.
  intros HC Hx Hf Hle t' x0 Hne Hx0. apply Forall_forall. intros f' Hin.
  destruct (wdec_false_on o f') eqn:E; auto. apply wdec_false_datt in E. destruct E as [E|E]; [|subst f'].
  - pose proof (datt_ge_thr2 s t t' x x0 o (not_eq_sym Hne) Hx Hx0).
    pose proof (sumZ_In_le (frame_dealloc_attempt o) (frames x0) f' (fun b => proj1 (frame_datt_range o b)) Hin).
    rewrite (thr_datt_top _ _ _ _ Hf) in H. unfold thr_datt in H. cbn [frame_dealloc_attempt] in H. rewrite Nat.eqb_refl in H.
    assert (0 <= sumZ (frame_dealloc_attempt o) k) by (apply sumZ_nonneg; intros; apply frame_datt_range). lia.
  - exfalso. eapply (HC t x o tmp k t' x0); eauto.
Qed.
Lemma wuniq_k s t x o tmp k : wcounted_ok s -> gett s t = Some x -> frames x = FDecW107 o tmp false :: k -> dealloc_attempts s o <= 1 ->
  Forall (fun f => wdec_false_on o f = false) k.
Proof.
  intros HC Hx Hf Hle. apply Forall_forall. intros f' Hin.
  destruct (wdec_false_on o f') eqn:E; auto. apply wdec_false_datt in E. destruct E as [E|E]; [|subst f'].
  - pose proof (datt_ge_thr s t x o Hx). rewrite (thr_datt_top _ _ _ _ Hf) in H. cbn [frame_dealloc_attempt] in H. rewrite Nat.eqb_refl in H.
    pose proof (sumZ_In_le (frame_dealloc_attempt o) k f' (fun b => proj1 (frame_datt_range o b)) Hin). lia.
  - exfalso. eapply (HC t x o tmp k t x); eauto. rewrite Hf. right. auto.
Qed.

(* the top frame's weak credit is covered by the weak owners *)
Lemma thr_weak_ge_top o x f k : frames x = f :: k -> 0 <= thr_wneg o x -> frame_weak o f - frame_wneg o f <= thr_weak o x.
Proof.
  intros Hf Hn. unfold thr_weak, thr_wneg in *. rewrite Hf, !sumZ_cons in *.
  pose proof (sumZ_le (frame_wneg o) (frame_weak o) k (frame_weak_ge_wneg o)). lia.
Qed.

Lemma fsub_weak w : W w -> weak w < LIM -> weak (fsub w WEAK_COUNT) < LIM ->
  weak (fsub w WEAK_COUNT) = weak w - 1 /\ weaked (fsub w WEAK_COUNT) = weaked w /\ 1 <= weak w.
Proof.
  intros Hw Hb Hb'. unfold fsub in *. change WEAK_COUNT with (2 ^ 29) in *.
  assert (Hw' : W (wrap 64 (w - 2 ^ 29))) by (apply wrap_range; lia).
  rewrite !weak_spec, !weaked_spec in * by auto. unfold LIM in *.
  assert (f_weak (wrap 64 (w - 2 ^ 29)) = f_weak w - 1 /\ f_weaked (wrap 64 (w - 2 ^ 29)) = f_weaked w /\ 1 <= f_weak w)
    by (unfold wrap in *; fields; lia).
  destruct H as (E1 & E2 & E3). rewrite E1, E2. auto.
Qed.


Lemma wmicro_FDecW107 s t rec s' obs x k o tmp own :
  Winv s -> Inv' s -> wcounted_ok s -> bounded s -> bounded s' -> gett s t = Some x -> frames x = FDecW107 o tmp own :: k ->
  micro s t rec = Some (s', obs) -> Winv s'.
Proof.
  intros HW HI HWC HB HB' Hx Hf Hm. pose proof HW as (HA & HN & HT & HD & HF). destruct (HT _ _ Hx) as (Nx & Sx). rewrite Hf in Sx.
  open_micro Hm Hx Hf.
  destruct (geto s o) as [ob|] eqn:Hg; [|inversion Hm; subst; kill_err' HB'].
  assert (Ho : o <> O) by (intros ->; discriminate).
  destruct (bounded_word _ _ _ HB Hg) as (Hw & Hs & Hwk).
  set (ob' := {| word := fsub (word ob) WEAK_COUNT; dropped := dropped ob; freed := freed ob; tok := tok ob;
                 wtok := if own then wtok ob else false; links := links ob |}) in *.
  assert (Hg' : geto s' o = Some ob').
  { destruct (weak (word ob) =? 1); inversion Hm; subst s'; cbn [geto sett objs defer set_pending];
      change (geto (seto s o ob') o = Some ob'); eapply geto_seto_eq; eauto. }
  destruct (bounded_word _ _ _ HB' Hg') as (_ & _ & Hwk'). cbn [word ob'] in Hwk'.
  destruct (upd_fsub_weak _ Hw Hwk') as (Hw' & _ & Hd').
  destruct (fsub_weak _ Hw Hwk Hwk') as (E1 & E2 & E3). clear Hg'. subst ob'.
  (* facts when the block is not freed *)
  assert (Hlive : freed ob = false -> wobj s o ob /\ (own = true -> 1 <= wowners s o) /\ (own = false -> wtok ob = true)).
  { intros Hfr. split; [apply HA; auto|]. split; intros ->.
    - pose proof (wowners_ge_thr s t x o (Winv_all_wneg _ HW) Ho Hx).
      pose proof (thr_weak_ge_top o x _ k Hf (Nx o Ho)). cbn [frame_weak frame_wneg] in H0. rewrite Nat.eqb_refl in H0. lia.
    - apply Forall_inv in Sx. cbn in Sx. destruct Sx as (ob0 & Hg0 & Ht). rewrite Hg in Hg0. inversion Hg0; subst. auto. }
  assert (Hfa : own = false -> frame_dealloc_attempt o (FDecW107 o tmp own) = 1) by (intros ->; cbn; rewrite Nat.eqb_refl; auto).
  assert (Hu : own = false -> freed ob = false ->
     (forall t' x0, t' <> t -> gett s t' = Some x0 -> Forall (fun f => wdec_false_on o f = false) (frames x0)) /\
     Forall (fun f => wdec_false_on o f = false) k).
  { intros E Hfr. subst own. destruct (Hlive Hfr) as ([_ (A1 & _) _] & _). split.
    - eapply wuniq_other; eauto. lia.
    - eapply wuniq_k; eauto. lia. }
  pose proof (b2z_range (wtok ob)) as Hb. pose proof (gfr_nonneg s o) as Hgn. pose proof (b2z_range (negb (dropped ob))) as Hbn.
  destruct own; destruct (freed ob) eqn:Hfr; destruct (Z.eqb_spec (weak (word ob)) 1) as [H1|H1];
    inversion Hm; subst s' obs; clear Hm; change (with_frames x k) with (with_frames x ([] ++ k)).
  all: match goal with
       | |- Winv (sett ?S _ _) =>
           first [ (* own = false, not freed: the token is consumed *)
                   match type of Hf with context [FDecW107 _ _ false] =>
                     match type of Hfr with _ = false =>
                       destruct (Hu eq_refl eq_refl) as (Hu1 & Hu2);
                       eapply (wstep_one s S t x x _ k _ o ob _ o HW Hx Hf) end end
                 | eapply (wstep_one s S t x x _ k _ o ob _ 0 HW Hx Hf) ]
       end; try exact Hg; try (cbn [threads defer set_pending]; apply threads_seto); auto;
       try (intros; reflexivity); try (apply Wex0; auto); try (eapply Wexk0; eauto); try solve [repeat constructor]; try solve [cbn [word freed with_word]; intros; congruence]; try solve [wcredits];
       try (cbn [freed wtok]; intros; congruence).
  all: try (intros o0 Ho0 Hn0; wsums Hx; wtops Hf; destruct (Nat.eqb_spec o o0); [congruence|]; cbn [andb]; lia).
  all: try (cbn [word dropped]; intros Hdd; rewrite Hd' in Hdd; wsums Hx; wtops Hf; specialize (HD _ _ Hg Hdd); lia).
  all: try (cbn [freed]; intros _; destruct (HF _ _ Hg Hfr) as (F1 & F2); wsums Hx; wtops Hf; rewrite ?Nat.eqb_refl;
            try (pose proof (wowners_ge_thr s t x o (Winv_all_wneg _ HW) Ho Hx) as Q1; pose proof (thr_weak_ge_top o x _ k Hf (Nx o Ho)) as Q2;
                 cbn [frame_weak frame_wneg] in Q2; rewrite Nat.eqb_refl in Q2); lia).
  all: cbn [freed]; intros _; destruct (Hlive eq_refl) as ([C A K] & L1 & L2); unfold gsh in *;
    constructor; unfold gsh; cbn [word wtok dropped]; wsums Hx; wtops Hf; rewrite ?Nat.eqb_refl, ?E1, ?E2; auto;
    try specialize (L1 eq_refl); try (rewrite (L2 eq_refl) in *); rewrite <- ?b2z_true in *; unfold b2z in *; cbn [Z.b2z andb] in *; try lia.
  all: intros Hk; destruct (K Hk) as (K1 & K2); pose proof (wowners_nonneg s o (Winv_all_wneg _ HW) Ho); lia.
Qed.

Lemma wmicro_FTDe102 s t rec s' obs x k o :
  Winv s -> bounded s -> bounded s' -> gett s t = Some x -> frames x = FTDe102 o :: k ->
  micro s t rec = Some (s', obs) -> Winv s'.
Proof.
  intros HW HB HB' Hx Hf Hm. pose proof HW as (HA & HN & HT & HD & HF). destruct (HT _ _ Hx) as (Nx & Sx). rewrite Hf in Sx.
  open_micro Hm Hx Hf.
  destruct (geto s o) as [ob|] eqn:Hg; [|inversion Hm; subst; kill_err' HB'].
  destruct (Z.ltb_spec 0 (weak (word ob))); inversion Hm; subst s' obs; clear Hm; reshape k.
  - eapply wstep_neutral; try eassumption; try threads_solve; try pending_solve; wviews_solve; try solve [wcredits].
    repeat constructor. exists ob. split; auto. intros Hfr. destruct (HA _ _ Hg Hfr) as [_ (A1 & A2) _].
    pose proof (datt_ge_thr s t x o Hx) as Hge. rewrite (thr_datt_top _ _ _ _ Hf) in Hge. cbn [frame_dealloc_attempt] in Hge.
    rewrite Nat.eqb_refl in Hge.
    assert (0 <= sumZ (frame_dealloc_attempt o) k) by (apply sumZ_nonneg; intros; apply frame_datt_range).
    assert (E : dealloc_attempts s o = 1) by lia. destruct (proj1 A2 E); auto. lia.
  - eapply (wstep_one s _ t x x _ k _ o ob _ 0 HW Hx Hf (threads_seto _ _ _) Hg); auto;
      try (intros; reflexivity); try (apply Wex0; auto); try (eapply Wexk0; eauto); try solve [repeat constructor]; try solve [cbn [word freed with_word]; intros; congruence]; try solve [wcredits];
      try (cbn [freed]; intros; discriminate).
    + intros o0 Ho0 Hn0. wsums Hx. wtops Hf. destruct (Nat.eqb_spec o o0); [congruence|]. lia.
    + cbn [word dropped]. intros Hdd. wsums Hx. wtops Hf. specialize (HD _ _ Hg Hdd). lia.
    + intros _. wsums Hx. wtops Hf. destruct (freed ob) eqn:Hfr.
      * destruct (HF _ _ Hg Hfr). lia.
      * destruct (HA _ _ Hg Hfr) as [C _ _]. unfold gsh in C. assert (Ho : o <> O) by (intros ->; discriminate).
        pose proof (wowners_nonneg s o (Winv_all_wneg _ HW) Ho). pose proof (b2z_range (wtok ob)). pose proof (b2z_range (negb (dropped ob))).
        pose proof (gfr_nonneg s o). pose proof (weak_range _ (proj1 (bounded_word _ _ _ HB Hg))). lia.
Qed.

Lemma add_weak_fields w cnt : W w -> weak w < LIM -> 0 < cnt < LIM ->
  weak (add_weak (with_weaked w true) cnt) = weak w + cnt /\ weaked (add_weak (with_weaked w true) cnt) = true /\
  destructed (add_weak (with_weaked w true) cnt) = destructed w.
Proof.
  intros Hw Hb Hc. destruct (with_weaked_indep w true Hw) as ([Hw1 S1 S2 _ S4 S5] & S3).
  assert (Hb1 : f_weak (with_weaked w true) + cnt < 2 ^ 29).
  { rewrite S2 by auto. rewrite weak_spec in Hb by auto. unfold LIM in *. lia. }
  destruct (add_weak_indep (with_weaked w true) cnt Hw1 ltac:(lia) Hb1) as ([Hw2 T1 _ T3 T4 T5] & T2).
  rewrite !weak_spec, !weaked_spec, !destructed_spec by auto.
  rewrite T2, S2, T3, S3, T4, S4 by auto. repeat split; auto.
Qed.

Lemma fadd_weak_fields w cnt : W w -> weak w < LIM -> 0 < cnt < LIM ->
  weak (fadd w (wrap 64 (cnt * WEAK_COUNT))) = weak w + cnt /\ weaked (fadd w (wrap 64 (cnt * WEAK_COUNT))) = weaked w /\
  destructed (fadd w (wrap 64 (cnt * WEAK_COUNT))) = destructed w.
Proof.
  intros Hw Hb Hc. unfold fadd. rewrite weak_spec in Hb by auto. unfold LIM in *.
  assert (E1 : wrap 64 (cnt * WEAK_COUNT) = cnt * WEAK_COUNT) by (apply wrap_small; change WEAK_COUNT with (2 ^ 29); lia). rewrite E1.
  destruct (fetch_add_weak_indep w cnt Hw ltac:(lia) ltac:(lia)) as ([Hw2 T1 _ T3 T4 T5] & T2).
  rewrite !weak_spec, !weaked_spec, !destructed_spec by auto. rewrite T2, T3, T4 by auto. auto.
Qed.

Lemma fadd_weak1_fields w : W w -> weak w < LIM ->
  weak (fadd w WEAK_COUNT) = weak w + 1 /\ weaked (fadd w WEAK_COUNT) = weaked w /\ destructed (fadd w WEAK_COUNT) = destructed w.
Proof.
  intros Hw Hb. unfold fadd. rewrite weak_spec in Hb by auto. unfold LIM in *.
  destruct (fetch_add_weak_indep w 1 Hw ltac:(lia) ltac:(lia)) as ([Hw2 T1 _ T3 T4 T5] & T2).
  replace (w + WEAK_COUNT) with (w + 1 * WEAK_COUNT) by lia.
  rewrite !weak_spec, !weaked_spec, !destructed_spec by auto. rewrite T2, T3, T4 by auto. auto.
Qed.

Ltac wone_sides HW Hx Hf :=
  auto; try (intros; reflexivity); try (apply Wex0; auto); try (eapply Wexk0; eauto); try solve [repeat constructor]; try solve [cbn [word freed with_word]; intros; congruence].

Lemma wmicro_FIncW104 s t rec s' obs x k o cnt old :
  Winv s -> Inv' s -> wlive_ok s -> bounded s -> bounded s' -> gett s t = Some x -> frames x = FIncW104 o cnt old :: k ->
  micro s t rec = Some (s', obs) -> Winv s'.
Proof.
  intros HW HI HL HB HB' Hx Hf Hm. pose proof HW as (HA & HN & HT & HD & HF). destruct (HT _ _ Hx) as (Nx & Sx). rewrite Hf in Sx.
  pose proof (Inv'_thr_wf _ _ _ HI Hx) as (_ & Hwf0 & _). rewrite Hf in Hwf0. apply Forall_inv in Hwf0. destruct Hwf0 as (Hcnt & Hwkd).
  open_micro Hm Hx Hf.
  destruct (geto s o) as [ob|] eqn:Hg; [|inversion Hm; subst; kill_err' HB'].
  assert (Ho : o <> O) by (intros ->; discriminate).
  pose proof (HL t x _ k o ob Hx Hf eq_refl Hg) as Hnf.
  destruct (bounded_word _ _ _ HB Hg) as (Hw & _ & Hwk).
  destruct (Z.eqb_spec (word ob) old) as [<-|Hne].
  2:{ destruct (weaked (word ob)) eqn:Hwk2; inversion Hm; subst s' obs; clear Hm; reshape k;
      eapply wstep_neutral; try eassumption; try threads_solve; try pending_solve; wviews_solve; try solve [wcredits]; try solve [repeat constructor];
      repeat constructor; eexists; split; eauto. }
  inversion Hm; subst s' obs; clear Hm. change (with_frames x k) with (with_frames x ([] ++ k)).
  destruct (add_weak_fields (word ob) cnt Hw Hwk Hcnt) as (E1 & E2 & E3).
  pose proof (wowners_nonneg s o (Winv_all_wneg _ HW) Ho) as Hwn. pose proof (b2z_range (wtok ob)) as Hb.
  eapply (wstep_one s _ t x x _ k _ o ob _ 0 HW Hx Hf (threads_seto _ _ _) Hg); wone_sides HW Hx Hf.
  - intros o0 Ho0. wcredits. destruct (Nat.eqb o o0); lia.
  - intros o0 Ho0 Hn0. wsums Hx. wtops Hf. destruct (Nat.eqb_spec o o0); [congruence|]. lia.
  - cbn [freed with_word]. intros Hfr. destruct (HA _ _ Hg Hfr) as [C A K]. specialize (K Hwkd). unfold gsh in *.
    constructor; unfold gsh; cbn [word wtok dropped with_word]; wsums Hx; wtops Hf; rewrite ?Nat.eqb_refl, ?E1, ?E2; try lia; try congruence.
    rewrite <- ?b2z_true in *. unfold b2z in *. lia.
  - cbn [word dropped with_word]. rewrite E3. intros Hdd. wsums Hx. wtops Hf. specialize (HD _ _ Hg Hdd). lia.
Qed.

Lemma wmicro_FIncW105 s t rec s' obs x k o cnt :
  Winv s -> Inv' s -> wlive_ok s -> bounded s -> bounded s' -> gett s t = Some x -> frames x = FIncW105 o cnt :: k ->
  micro s t rec = Some (s', obs) -> Winv s'.
Proof.
  intros HW HI HL HB HB' Hx Hf Hm. pose proof HW as (HA & HN & HT & HD & HF). destruct (HT _ _ Hx) as (Nx & Sx). rewrite Hf in Sx.
  pose proof (Inv'_thr_wf _ _ _ HI Hx) as (_ & Hwf0 & _). rewrite Hf in Hwf0. apply Forall_inv in Hwf0. cbn [frame_wf] in Hwf0.
  open_micro Hm Hx Hf.
  destruct (geto s o) as [ob|] eqn:Hg; [|inversion Hm; subst; kill_err' HB'].
  assert (Ho : o <> O) by (intros ->; discriminate).
  pose proof (HL t x _ k o ob Hx Hf eq_refl Hg) as Hnf.
  destruct (bounded_word _ _ _ HB Hg) as (Hw & _ & Hwk).
  destruct (fadd_weak_fields (word ob) cnt Hw Hwk Hwf0) as (E1 & E2 & E3).
  assert (Hwkd : weaked (word ob) = true).
  { pose proof (Forall_inv Sx) as S0. cbn in S0. destruct S0 as (ob0 & Hg0 & Hk0). rewrite Hg in Hg0. inversion Hg0; subst; auto. }
  pose proof (wowners_nonneg s o (Winv_all_wneg _ HW) Ho) as Hwn. pose proof (b2z_range (wtok ob)) as Hb.
  pose proof (gfr_nonneg s o) as Hgn. pose proof (b2z_range (negb (dropped ob))) as Hbn.
  destruct (Z.eqb_spec (weak (word ob)) 0) as [Hz|Hnz]; inversion Hm; subst s' obs; clear Hm; reshape k.
  - eapply (wstep_one s _ t x x _ k _ o ob _ 0 HW Hx Hf (threads_seto _ _ _) Hg); wone_sides HW Hx Hf.
    + intros o0 Ho0. wcredits. destruct (Nat.eqb o o0); lia.
    + repeat constructor. eexists. split; [eapply geto_seto_eq; eauto|]. split; [reflexivity|cbn [word]; rewrite E2; auto].
    + intros o0 Ho0 Hn0. wsums Hx. wtops Hf. destruct (Nat.eqb_spec o o0); [congruence|]. lia.
    + cbn [freed]. intros Hfr. destruct (HA _ _ Hg Hfr) as [C A K]. unfold gsh in *.
      constructor; unfold gsh; cbn [word wtok dropped]; wsums Hx; wtops Hf; rewrite ?Nat.eqb_refl, ?E1, ?E2; auto; try (intros; congruence);
        rewrite <- ?b2z_true in *; unfold b2z in *; cbn [Z.b2z] in *; try lia.
    + cbn [word dropped]. rewrite E3. intros Hdd. wsums Hx. wtops Hf. specialize (HD _ _ Hg Hdd). lia.
  - eapply (wstep_one s _ t x x _ k _ o ob _ 0 HW Hx Hf (threads_seto _ _ _) Hg); wone_sides HW Hx Hf.
    + intros o0 Ho0. wcredits. destruct (Nat.eqb o o0); lia.
    + intros o0 Ho0 Hn0. wsums Hx. wtops Hf. destruct (Nat.eqb_spec o o0); [congruence|]. lia.
    + cbn [freed with_word]. intros Hfr. destruct (HA _ _ Hg Hfr) as [C A K]. unfold gsh in *.
      pose proof (weak_range _ Hw).
      constructor; unfold gsh; cbn [word wtok dropped with_word]; wsums Hx; wtops Hf; rewrite ?Nat.eqb_refl, ?E1, ?E2; auto; try (intros; congruence);
        rewrite <- ?b2z_true in *; unfold b2z in *; cbn [Z.b2z] in *; try lia.
    + cbn [word dropped with_word]. rewrite E3. intros Hdd. wsums Hx. wtops Hf. specialize (HD _ _ Hg Hdd). lia.
Qed.

Lemma wmicro_FIncW106 s t rec s' obs x k o :
  Winv s -> wlive_ok s -> bounded s -> bounded s' -> gett s t = Some x -> frames x = FIncW106 o :: k ->
  micro s t rec = Some (s', obs) -> Winv s'.
Proof.
  intros HW HL HB HB' Hx Hf Hm. pose proof HW as (HA & HN & HT & HD & HF). destruct (HT _ _ Hx) as (Nx & Sx). rewrite Hf in Sx.
  open_micro Hm Hx Hf.
  destruct (geto s o) as [ob|] eqn:Hg; [|inversion Hm; subst; kill_err' HB'].
  assert (Ho : o <> O) by (intros ->; discriminate).
  pose proof (HL t x _ k o ob Hx Hf eq_refl Hg) as Hnf.
  destruct (bounded_word _ _ _ HB Hg) as (Hw & _ & Hwk).
  destruct (fadd_weak1_fields (word ob) Hw Hwk) as (E1 & E2 & E3).
  pose proof (weak_range _ Hw). pose proof (b2z_range (wtok ob)) as Hb.
  assert (Htok : (freed ob = false -> wtok ob = true) /\ weaked (word ob) = true).
  { apply Forall_inv in Sx. cbn in Sx. destruct Sx as (ob0 & Hg0 & Ht). rewrite Hg in Hg0. inversion Hg0; subst. auto. }
  destruct Htok as (Htok & Hwkd).
  inversion Hm; subst s' obs; clear Hm. change (with_frames x k) with (with_frames x ([] ++ k)).
  eapply (wstep_one s _ t x x _ k _ o ob _ 0 HW Hx Hf (threads_seto _ _ _) Hg); wone_sides HW Hx Hf.
  - intros o0 Ho0. wcredits. destruct (Nat.eqb o o0); lia.
  - intros o0 Ho0 Hn0. wsums Hx. wtops Hf. destruct (Nat.eqb_spec o o0); [congruence|]. lia.
  - cbn [freed with_word]. intros Hfr. destruct (HA _ _ Hg Hfr) as [C A K]. unfold gsh in *. specialize (Htok Hfr).
    constructor; unfold gsh; cbn [word wtok dropped with_word]; wsums Hx; wtops Hf; rewrite ?Nat.eqb_refl, ?E1, ?E2; auto; try (intros; congruence);
      rewrite <- ?b2z_true in *; unfold b2z in *; cbn [Z.b2z] in *; try lia.
  - cbn [word dropped with_word]. rewrite E3. intros Hdd. wsums Hx. wtops Hf. specialize (HD _ _ Hg Hdd). lia.
Qed.

(* ---- deferred function start (weak) *)
Lemma wawait_start s t x k kd o new p rest g :
  Winv s -> gett s t = Some x -> frames x = FAwait :: k ->
  take_pending (pending s) kd o = Some (p, rest) ->
  (kd = KDestruct /\ new = [FTD113 o; FEndClosure]) \/ (kd = KDealloc /\ new = [FTDe102 o; FEndClosure]) ->
  Winv (sett (see_epoch (set_pending s rest) g) t (with_frames (with_inclosure x true) (new ++ k))).
Proof.
  intros HW Hx Hf Htp Hk. pose proof HW as (HA & HN & HT & HD & HF). destruct (HT _ _ Hx) as (Nx & Sx). rewrite Hf in Sx.
  set (s0 := set_pending s rest). assert (Hrc : rc_eq s0 (see_epoch s0 g)) by apply rc_eq_see_epoch.
  destruct (take_pending_sum _ _ _ _ _ (pend_is KDealloc O) Htp) as (_ & Hpk & Hpo).
  assert (Hgeto : forall o0, geto (see_epoch s0 g) o0 = geto s o0) by (intros; apply (geto_rc_eq _ _ _ Hrc)).
  assert (Hx0 : gett (see_epoch s0 g) t = Some x) by (rewrite (gett_rc_eq _ _ _ Hrc); exact Hx).
  apply (wstep_intro s t x _ _ 0); auto.
  - apply Hrc.
  - intros o0 Ho0. specialize (Nx o0 Ho0). rewrite (thr_wneg_top _ _ _ _ Hf) in Nx. unfold thr_wneg. cbn [vars frames with_frames with_inclosure].
    rewrite sumZ_app. destruct Hk as [(_ & ->)|(_ & ->)]; rewrite !sumZ_cons, sumZ_nil; cbn [frame_wneg] in *; lia.
  - intros o0 ob Hg. exists ob. rewrite Hgeto. auto.
  - apply Wex0; auto.
  - cbn [frames with_frames]. inversion Sx; subst. apply Forall_app. split.
    + destruct Hk as [(_ & ->)|(_ & ->)]; repeat constructor.
    + eapply Forall_impl; [|eassumption]. intros a. apply frame_wst_ext. auto.
  - intros o0 Ho0.
    assert (E : wowners (sett (see_epoch s0 g) t (with_frames (with_inclosure x true) (new ++ k))) o0 = wowners s o0 /\
                dealloc_attempts (sett (see_epoch s0 g) t (with_frames (with_inclosure x true) (new ++ k))) o0 = dealloc_attempts s o0 /\
                gfr (sett (see_epoch s0 g) t (with_frames (with_inclosure x true) (new ++ k))) o0 = gfr s o0 /\
                disp (sett (see_epoch s0 g) t (with_frames (with_inclosure x true) (new ++ k))) o0 = disp s o0).
    { rewrite (wowners_sett _ _ _ _ _ Hx0), (datt_sett _ _ _ _ _ Hx0), (gfr_sett _ _ _ _ _ Hx0), (disp_sett _ _ _ _ _ Hx0).
      rewrite (wowners_tp _ _ _ (tp_eq_rc _ _ Hrc)), (datt_tp _ _ _ (tp_eq_rc _ _ Hrc)), (gfr_tp _ _ _ (tp_eq_rc _ _ Hrc)), (disp_tp _ _ _ (tp_eq_rc _ _ Hrc)).
      change (wowners s0 o0) with (wowners s o0). change (gfr s0 o0) with (gfr s o0). change (disp s0 o0) with (disp s o0).
      unfold dealloc_attempts. cbn [pending threads s0 set_pending].
      destruct (take_pending_sum _ _ _ _ _ (pend_is KDealloc o0) Htp) as (Hsum & _ & _). rewrite Hsum.
      unfold pend_is at 2. rewrite Hpk, Hpo.
      wtops Hf. destruct Hk as [(-> & ->)|(-> & ->)]; rewrite ?sumZ_cons, ?sumZ_nil;
        cbn [frame_weak frame_dealloc_attempt frame_g frame_disp pkind_eqb andb vars with_inclosure]; destruct (Nat.eqb o o0); lia. }
    destruct E as (Ew & Ea & Eg & Ed). rewrite Hgeto. destruct (geto s o0) as [ob|] eqn:Hg.
    + split; [intros Hfr; apply (wobj_transfer s _ o0 ob ob); auto; apply wview_refl|].
      split; [intros Hdd; rewrite Ed; auto|]. intros Hfr. rewrite Ew, Eg. apply (HF _ _ Hg); auto.
    + rewrite Ew, Ea, Eg. auto.
Qed.

Lemma wmicro_FAwait s t rec s' obs x k :
  Winv s -> bounded s' -> gett s t = Some x -> frames x = FAwait :: k -> micro s t rec = Some (s', obs) -> Winv s'.
Proof.
  intros HW HB' Hx Hf Hm. open_micro Hm Hx Hf.
  destruct rec as [|z [|oz r]].
  all: try (inversion Hm; subst; kill_err' HB').
  all: destruct z as [|p|p]; try (inversion Hm; subst; kill_err' HB').
  all: repeat (destruct p as [p|p|]; try (inversion Hm; subst; kill_err' HB')).
  - destruct (take_pending (pending s) KDestruct (nat_of oz)) as [[p rest]|] eqn:Htp;
      inversion Hm; subst s' obs; clear Hm; [|kill_err' HB'].
    change (FTD113 (nat_of oz) :: FEndClosure :: k) with ([FTD113 (nat_of oz); FEndClosure] ++ k).
    eapply wawait_start; eauto.
  - destruct (take_pending (pending s) KDealloc (nat_of oz)) as [[p rest]|] eqn:Htp;
      inversion Hm; subst s' obs; clear Hm; [|kill_err' HB'].
    change (FTDe102 (nat_of oz) :: FEndClosure :: k) with ([FTDe102 (nat_of oz); FEndClosure] ++ k).
    eapply wawait_start; eauto.
Qed.

(* ---- operation start (weak) *)
Lemma op_tail_weak o opc :
  sumZ (frame_weak o) (op_tail opc) = 0 /\ sumZ (frame_wneg o) (op_tail opc) = 0 /\
  sumZ (frame_dealloc_attempt o) (op_tail opc) = 0 /\ sumZ (frame_g o) (op_tail opc) = 0 /\ sumZ (frame_disp o) (op_tail opc) = 0.
Proof. unfold op_tail. rewrite !sumZ_cons, !sumZ_nil. cbn. auto. Qed.

(* operation start, no object changed *)
Lemma wop_step s s1 t x x1 fs opc :
  Winv s -> gett s t = Some x -> frames x = [FOp] -> rc_eq s s1 ->
  Forall (frame_wst s) fs ->
  (forall o, o <> O ->
     sumZ (handle_weak o) (vars x1) + sumZ (frame_weak o) fs = sumZ (handle_weak o) (vars x) /\
     0 <= sumZ (handle_weak o) (vars x1) + sumZ (frame_wneg o) fs /\
     sumZ (frame_dealloc_attempt o) fs = 0 /\ sumZ (frame_g o) fs = 0 /\ sumZ (frame_disp o) fs = 0) ->
  Winv (sett s1 t (with_frames x1 (fs ++ op_tail opc))).
Proof.
  intros HW Hx Hf Hrc Hst Hcr. pose proof HW as (HA & HN & HT & HD & HF).
  assert (Hx1 : gett s1 t = Some x) by (rewrite (gett_rc_eq _ _ _ Hrc); auto).
  assert (Hgeto : forall o, geto s1 o = geto s o) by (intros; apply geto_rc_eq; auto).
  apply (wstep_intro s t x s1 _ 0); auto.
  - apply Hrc.
  - intros o Ho. destruct (Hcr o Ho) as (_ & C2 & _). destruct (op_tail_weak o opc) as (_ & T2 & _).
    unfold thr_wneg. cbn [vars frames with_frames]. rewrite sumZ_app, T2. lia.
  - intros o ob Hg. exists ob. rewrite Hgeto. auto.
  - apply Wex0; auto.
  - cbn [frames with_frames]. apply Forall_app. split.
    + eapply Forall_impl; [|exact Hst]. intros a. apply frame_wst_ext; auto.
    + unfold op_tail. repeat constructor.
  - intros o Ho. destruct (Hcr o Ho) as (C1 & C2 & C3 & C4 & C5). destruct (op_tail_weak o opc) as (T1 & T2 & T3 & T4 & T5).
    assert (E : wowners (sett s1 t (with_frames x1 (fs ++ op_tail opc))) o = wowners s o /\
                dealloc_attempts (sett s1 t (with_frames x1 (fs ++ op_tail opc))) o = dealloc_attempts s o /\
                gfr (sett s1 t (with_frames x1 (fs ++ op_tail opc))) o = gfr s o /\
                disp (sett s1 t (with_frames x1 (fs ++ op_tail opc))) o = disp s o).
    { rewrite (wowners_sett _ _ _ _ _ Hx1), (datt_sett _ _ _ _ _ Hx1), (gfr_sett _ _ _ _ _ Hx1), (disp_sett _ _ _ _ _ Hx1).
      rewrite (wowners_tp _ _ _ (tp_eq_rc _ _ Hrc)), (datt_tp _ _ _ (tp_eq_rc _ _ Hrc)), (gfr_tp _ _ _ (tp_eq_rc _ _ Hrc)), (disp_tp _ _ _ (tp_eq_rc _ _ Hrc)).
      unfold thr_weak, thr_datt, thr_g, thr_disp. cbn [vars frames with_frames]. rewrite Hf, !sumZ_app, T1, T3, T4, T5, !sumZ_cons, !sumZ_nil.
      cbn [frame_weak frame_dealloc_attempt frame_g frame_disp]. lia. }
    destruct E as (Ew & Ea & Eg & Ed). rewrite Hgeto. destruct (geto s o) as [ob|] eqn:Hg.
    + split; [intros Hfr; apply (wobj_transfer s _ o ob ob); auto; apply wview_refl|].
      split; [intros Hdd; rewrite Ed; auto|]. intros Hfr. rewrite Ew, Eg. apply (HF _ _ Hg); auto.
    + rewrite Ew, Ea, Eg. auto.
Qed.

Definition wsop_goal (s : state) (t : nat) (x x0 : thr) (rec op : list Z) : Prop :=
  forall s1 x1 fs o, Winv s -> Inv' s -> gett s t = Some x -> frames x = [FOp] -> vars x0 = vars x ->
    op_ok (length (vars x)) op -> start_op s x0 rec op = (s1, x1, fs, o) ->
    Winv (sett s1 t (with_frames x1 (fs ++ op_tail (hd 0 op)))).

Lemma handles_weak_nonneg o l : 0 <= sumZ (handle_weak o) l.
Proof. apply sumZ_nonneg. intros. apply handle_weak_nonneg. Qed.

Lemma wop_noop s s1 t x x1 opc :
  Winv s -> gett s t = Some x -> frames x = [FOp] -> rc_eq s s1 -> vars x1 = vars x ->
  Winv (sett s1 t (with_frames x1 ([] ++ op_tail opc))).
Proof.
  intros HW Hx Hf Hrc Hv. apply (wop_step s s1 t x x1 [] opc); auto.
  intros o Ho. rewrite Hv, !sumZ_nil. pose proof (handles_weak_nonneg o (vars x)). repeat split; lia.
Qed.
Ltac wnoop Hs := solve [inversion Hs; subst; eapply wop_noop; [eassumption|eassumption|eassumption|..]; auto using rc_eq_refl, rc_eq_set_err, rc_eq_see_epoch].

(* frames only, all weak credits cancel *)
Lemma wop_frames s t x x1 fs opc :
  Winv s -> gett s t = Some x -> frames x = [FOp] -> vars x1 = vars x -> Forall (frame_wst s) fs ->
  (forall o, o <> O -> sumZ (frame_weak o) fs = 0 /\ sumZ (frame_wneg o) fs = 0 /\
     sumZ (frame_dealloc_attempt o) fs = 0 /\ sumZ (frame_g o) fs = 0 /\ sumZ (frame_disp o) fs = 0) ->
  Winv (sett s t (with_frames x1 (fs ++ op_tail opc))).
Proof.
  intros HW Hx Hf Hv Hst Hcr. apply (wop_step s s t x x1 fs opc); auto using rc_eq_refl.
  intros o Ho. destruct (Hcr o Ho) as (C1 & C2 & C3 & C4 & C5). rewrite Hv, C1, C2. pose proof (handles_weak_nonneg o (vars x)).
  repeat split; auto; lia.
Qed.

Ltac wsop_start Hs Hok Hdf Hv op :=
  sop_open Hs; cbn [op_ok] in Hok;
  destruct (dst_free _ op) eqn:Hdf; cbn [negb] in Hs; [|wnoop Hs]; cbn in Hdf;
  try (apply is_none_true in Hdf; rewrite (getv_vars _ _ _ Hv) in Hdf).
Ltac wfr_credits :=
  intros ?o0 ?Ho0; rewrite ?sumZ_cons, ?sumZ_nil;
  cbn [frame_weak frame_wneg frame_dealloc_attempt frame_g frame_disp handle_weak KSET cok cfail]; repeat split; try lia.

Lemma wsop_frames_only s t x x0 rec op :
  (forall s1 x1 fs o, start_op s x0 rec op = (s1, x1, fs, o) ->
     s1 = s /\ vars x1 = vars x0 /\ Forall (frame_wst s) fs /\
     (forall o, o <> O -> sumZ (frame_weak o) fs = 0 /\ sumZ (frame_wneg o) fs = 0 /\
        sumZ (frame_dealloc_attempt o) fs = 0 /\ sumZ (frame_g o) fs = 0 /\ sumZ (frame_disp o) fs = 0)) ->
  wsop_goal s t x x0 rec op.
Proof.
  intros H s1 x1 fs o HW HI Hx Hf Hv Hok Hs. destruct (H _ _ _ _ Hs) as (-> & Hv1 & Hst & Hcr).
  apply (wop_frames s t x); auto. congruence.
Qed.

Ltac wfo_tac :=
  apply wsop_frames_only; intros s1 x1 fs o Hs; unfold start_op in Hs; cbv beta iota zeta in Hs;
  destruct_in Hs; inversion Hs; subst; clear Hs;
  unfold incs_frames, incw_frames, dec_frames, decw_frames; destruct_matches;
  (split; [reflexivity|split; [reflexivity|split; [try solve [repeat constructor]|]]]);
  try wfr_credits.

Lemma wsop_6 s t x x0 rec a d : wsop_goal s t x x0 rec [6; a; d].
Proof. wfo_tac. Qed.

Ltac wincw_tac :=
  apply wsop_frames_only; intros s1 x1 fs o Hs; unfold start_op in Hs; cbv beta iota zeta in Hs;
  destruct_in Hs; inversion Hs; subst; clear Hs;
  try (split; [reflexivity|split; [reflexivity|split; [solve [repeat constructor]|]]]; wfr_credits; fail);
  match goal with |- context [incw_frames (fst ?l) _ _] =>
    unfold incw_frames; destruct (fst l) eqn:Hl;
    (split; [reflexivity|split; [reflexivity|split; [solve [repeat constructor]|]]]);
    wfr_credits; unfold is_o; rewrite ?Hl;
    match goal with H : ?o <> O |- _ => destruct o; [congruence|] end; cbn [Nat.eqb]; try destruct (Nat.eqb _ _); lia
  end.

Lemma wsop_13 s t x x0 rec a d : wsop_goal s t x x0 rec [13; a; d]. Proof. wfo_tac. Qed.
Lemma wsop_15 s t x x0 rec a d : wsop_goal s t x x0 rec [15; a; d]. Proof. wfo_tac. Qed.
Lemma wsop_18 s t x x0 rec a d : wsop_goal s t x x0 rec [18; a; d]. Proof. wfo_tac. Qed.
Lemma wsop_30 s t x x0 rec ck a b d : wsop_goal s t x x0 rec [30; ck; a; b; d]. Proof. wfo_tac. Qed.
Lemma wsop_33 s t x x0 rec ck a b e src d : wsop_goal s t x x0 rec [33; ck; a; b; e; src; d]. Proof. wfo_tac. Qed.
Lemma wsop_25 s t x x0 rec a : wsop_goal s t x x0 rec [25; a]. Proof. wfo_tac. Qed.
Lemma wsop_9 s t x x0 rec a d : wsop_goal s t x x0 rec [9; a; d]. Proof. wincw_tac. Qed.
Lemma wsop_11 s t x x0 rec a d : wsop_goal s t x x0 rec [11; a; d]. Proof. wincw_tac. Qed.
Lemma wsop_17 s t x x0 rec a d : wsop_goal s t x x0 rec [17; a; d]. Proof. wincw_tac. Qed.

Lemma wop_vars s s1 t x x1 opc :
  Winv s -> gett s t = Some x -> frames x = [FOp] -> rc_eq s s1 ->
  (forall o, o <> O -> sumZ (handle_weak o) (vars x1) = sumZ (handle_weak o) (vars x)) ->
  Winv (sett s1 t (with_frames x1 ([] ++ op_tail opc))).
Proof.
  intros HW Hx Hf Hrc Hcr. apply (wop_step s s1 t x x1 [] opc); auto.
  intros o Ho. rewrite (Hcr o Ho), !sumZ_nil. pose proof (handles_weak_nonneg o (vars x)). repeat split; lia.
Qed.

Lemma sumZ_setv_weak0' o x0 x d h : vars x0 = vars x -> getv x d = HNone -> handle_weak o h = 0 ->
  sumZ (handle_weak o) (set_nth (vars x0) d h) = sumZ (handle_weak o) (vars x).
Proof. intros Hv Hn Hh. rewrite Hv. apply sumZ_setv_weak0; auto. Qed.

Ltac wsop_setv0 Hs Hv Hdf :=
  inversion Hs; subst; clear Hs;
  eapply wop_vars; try eassumption; auto using rc_eq_refl; vars_norm;
  intros ?o0 ?Ho0; apply sumZ_setv_weak0'; auto.

Lemma wsop_14 s t x x0 rec a d : wsop_goal s t x x0 rec [14; a; d].
Proof.
  intros s1 x1 fs o HW HI Hx Hf Hv Hok Hs. wsop_start Hs Hok Hdf Hv [14; a; d].
  destruct (getv x0 (nat_of a)) eqn:Hga; try wnoop Hs. wsop_setv0 Hs Hv Hdf.
Qed.
Lemma wsop_16 s t x x0 rec a d : wsop_goal s t x x0 rec [16; a; d].
Proof.
  intros s1 x1 fs o HW HI Hx Hf Hv Hok Hs. wsop_start Hs Hok Hdf Hv [16; a; d].
  destruct (getv x0 (nat_of a)) eqn:Hga; try wnoop Hs. wsop_setv0 Hs Hv Hdf.
Qed.
Lemma wsop_19 s t x x0 rec a d : wsop_goal s t x x0 rec [19; a; d].
Proof.
  intros s1 x1 fs o HW HI Hx Hf Hv Hok Hs. wsop_start Hs Hok Hdf Hv [19; a; d].
  destruct (getv x0 (nat_of a)) eqn:Hga; try wnoop Hs. wsop_setv0 Hs Hv Hdf.
Qed.
Lemma wsop_24 s t x x0 rec d : wsop_goal s t x x0 rec [24; d].
Proof.
  intros s1 x1 fs o HW HI Hx Hf Hv Hok Hs. wsop_start Hs Hok Hdf Hv [24; d]. wsop_setv0 Hs Hv Hdf.
Qed.
Lemma wsop_20 s t x x0 rec : wsop_goal s t x x0 rec [20].
Proof.
  intros s1 x1 fs o HW HI Hx Hf Hv Hok Hs. wsop_start Hs Hok Hdf Hv [20].
  destruct (gdepth x0); inversion Hs; subst; eapply wop_noop; try eassumption; auto using rc_eq_refl, rc_eq_see_epoch.
Qed.
Lemma wsop_21 s t x x0 rec : wsop_goal s t x x0 rec [21].
Proof.
  intros s1 x1 fs o HW HI Hx Hf Hv Hok Hs. wsop_start Hs Hok Hdf Hv [21].
  inversion Hs; subst; clear Hs. eapply wop_vars; try eassumption; auto using rc_eq_refl; cbn [vars with_guard with_vars].
  intros o0 Ho0. destruct (gdepth x0) as [|[|]]; rewrite Hv; auto. rewrite sumZ_map. apply sumZ_ext.
  intros h _; destruct h; reflexivity.
Qed.

Lemma wop_take s t x x0 x1 i h fs opc :
  Winv s -> gett s t = Some x -> frames x = [FOp] -> vars x0 = vars x ->
  getv x0 i = h -> h <> HNone -> vars x1 = set_nth (vars x0) i HNone -> Forall (frame_wst s) fs ->
  (forall o, o <> O -> sumZ (frame_weak o) fs = handle_weak o h /\ sumZ (frame_wneg o) fs = 0 /\
     sumZ (frame_dealloc_attempt o) fs = 0 /\ sumZ (frame_g o) fs = 0 /\ sumZ (frame_disp o) fs = 0) ->
  Winv (sett s t (with_frames x1 (fs ++ op_tail opc))).
Proof.
  intros HW Hx Hf Hv Hg Hn Hv1 Hst Hcr.
  rewrite (getv_vars _ _ _ Hv) in Hg. rewrite Hv in Hv1.
  assert (Hi : (i < length (vars x))%nat) by (eapply getv_some_lt; eauto).
  pose proof (getv_nth x _ Hi) as Ei. rewrite Hg in Ei.
  apply (wop_step s s t x x1 fs opc); auto using rc_eq_refl.
  intros o Ho. destruct (Hcr o Ho) as (C1 & C2 & C3 & C4 & C5). rewrite Hv1, (sumZ_set_nth _ _ _ _ _ Ei), C1, C2. cbn [handle_weak].
  pose proof (handles_weak_nonneg o (set_nth (vars x) i HNone)). rewrite (sumZ_set_nth _ _ _ _ _ Ei) in H. cbn [handle_weak] in H.
  repeat split; auto; lia.
Qed.

Ltac wtake Hs :=
  inversion Hs; subst; clear Hs;
  eapply wop_take; try eassumption; try reflexivity; try discriminate;
  unfold dec_frames, decw_frames; destruct_matches; try solve [repeat constructor];
  wfr_credits; unfold is_o; cbn [fst]; try lia.

Lemma wsop_7 s t x x0 rec a : wsop_goal s t x x0 rec [7; a].
Proof.
  intros s1 x1 fs o HW HI Hx Hf Hv Hok Hs. wsop_start Hs Hok Hdf Hv [7; a].
  destruct (getv x0 (nat_of a)) eqn:Hga; try wnoop Hs. wtake Hs.
Qed.
Lemma wsop_8 s t x x0 rec a : wsop_goal s t x x0 rec [8; a].
Proof.
  intros s1 x1 fs o HW HI Hx Hf Hv Hok Hs. wsop_start Hs Hok Hdf Hv [8; a].
  destruct (getv x0 (nat_of a)) eqn:Hga; try wnoop Hs. wtake Hs.
Qed.
Lemma wsop_4 s t x x0 rec a : wsop_goal s t x x0 rec [4; a].
Proof.
  intros s1 x1 fs o HW HI Hx Hf Hv Hok Hs. wsop_start Hs Hok Hdf Hv [4; a].
  destruct (getv x0 (nat_of a)) eqn:Hga; try wnoop Hs. wtake Hs.
Qed.
Lemma wsop_5 s t x x0 rec a : wsop_goal s t x x0 rec [5; a].
Proof.
  intros s1 x1 fs o HW HI Hx Hf Hv Hok Hs. wsop_start Hs Hok Hdf Hv [5; a].
  destruct (getv x0 (nat_of a)) eqn:Hga; try wnoop Hs. wtake Hs.
Qed.
Lemma wsop_31 s t x x0 rec ck a b src : wsop_goal s t x x0 rec [31; ck; a; b; src].
Proof.
  intros s1 x1 fs o HW HI Hx Hf Hv Hok Hs. wsop_start Hs Hok Hdf Hv [31; ck; a; b; src].
  destruct (getv x0 (nat_of src)) eqn:Hga; try wnoop Hs. destruct (cell_ok x0 ck a); try wnoop Hs.
  destruct (store_ok _ _); try wnoop Hs. wtake Hs.
Qed.
Lemma wsop_32 s t x x0 rec ck a b src d : wsop_goal s t x x0 rec [32; ck; a; b; src; d].
Proof.
  intros s1 x1 fs o HW HI Hx Hf Hv Hok Hs. wsop_start Hs Hok Hdf Hv [32; ck; a; b; src; d].
  destruct (getv x0 (nat_of src)) eqn:Hga; try wnoop Hs. destruct (cell_ok x0 ck a); try wnoop Hs.
  destruct (store_ok _ _); try wnoop Hs. wtake Hs.
Qed.

Lemma wsop_12 s t x x0 rec a : wsop_goal s t x x0 rec [12; a].
Proof.
  intros s1 x1 fs o HW HI Hx Hf Hv Hok Hs. wsop_start Hs Hok Hdf Hv [12; a].
  destruct (getv x0 (nat_of a)) eqn:Hga; try wnoop Hs.
  inversion Hs; subst; clear Hs.
  eapply wop_take; try eassumption; try reflexivity; try discriminate;
    unfold decw_frames; destruct (fst l) eqn:Hl; try solve [repeat constructor];
    wfr_credits; unfold is_o; rewrite ?Hl; try lia.
  destruct o0; [congruence|reflexivity].
Qed.

Lemma sumZ_set_nth_zero {A} (f : A -> Z) l i b : f b = 0 -> (forall a, nth_error l i = Some a -> f a = 0) ->
  sumZ f (set_nth l i b) = sumZ f l.
Proof.
  intros Hb Ha. destruct (nth_error l i) as [a|] eqn:E.
  - rewrite (sumZ_set_nth _ _ _ _ _ E), (Ha a eq_refl). lia.
  - rewrite set_nth_none; auto.
Qed.

Lemma wsop_3 s t x x0 rec i d : wsop_goal s t x x0 rec [3; i; d].
Proof.
  intros s1 x1 fs o HW HI Hx Hf Hv Hok Hs. wsop_start Hs Hok Hdf Hv [3; i; d].
  destruct (getv x0 (nat_of i)) eqn:Hgi; try wnoop Hs. rewrite (getv_vars _ _ _ Hv) in Hgi.
  assert (Hi : (nat_of i < length (vars x))%nat) by (eapply getv_some_lt; eauto; discriminate).
  assert (Hne : nat_of i <> nat_of d) by (intros E; rewrite E in Hgi; congruence).
  pose proof (getv_nth x _ Hi) as Ei. rewrite Hgi in Ei.
  destruct (0 <? rem); inversion Hs; subst s1 x1 fs o; clear Hs.
  - eapply (wop_vars s s t x); auto using rc_eq_refl; vars_norm; rewrite Hv. intros o1 Ho1.
    rewrite sumZ_set_nth_zero; auto.
    + rewrite sumZ_set_nth_zero; auto. intros a Ha. rewrite Ei in Ha. inversion Ha; subst. reflexivity.
    + intros a Ha. rewrite nth_error_set_nth_neq in Ha by auto. rewrite (getv_nth x _ Hok), Hdf in Ha. inversion Ha; subst. reflexivity.
  - eapply (wop_vars s s t x); auto using rc_eq_refl; vars_norm. intros o1 Ho1. apply sumZ_setv_weak0'; auto.
Qed.

Lemma wsop_10 s t x x0 rec a n d : wsop_goal s t x x0 rec [10; a; n; d].
Proof.
  intros s1 x1 fs o HW HI Hx Hf Hv Hok Hs. sop_open Hs. cbn [op_ok] in Hok. destruct Hok as (Hn & Hd).
  destruct (dst_free x0 [10; a; n; d]) eqn:Hdf; cbn [negb] in Hs; [|wnoop Hs]. cbn [dst_free] in Hdf.
  pose proof (range_free_spec _ _ _ Hdf) as Hfree.
  destruct (getv x0 (nat_of a)) eqn:Hga; try wnoop Hs. inversion Hs; subst s1 x1 fs o; clear Hs.
  apply (wop_step s s t x _ _ _); auto using rc_eq_refl; cbn [vars with_vars]; rewrite ?Hv.
  - destruct (fst l); repeat constructor.
  - intros o0 Ho0. rewrite sumZ_set_range; auto.
    2:{ intros j Hj. rewrite <- Hv. apply (Hfree j Hj). }
    cbn [handle_weak]. unfold nat_of. rewrite Z2Nat.id by lia. pose proof (handles_weak_nonneg o0 (vars x)).
    unfold is_o. destruct (fst l) eqn:Hl; rewrite ?sumZ_cons, ?sumZ_nil; cbn [frame_weak frame_wneg frame_dealloc_attempt frame_g frame_disp].
    + destruct o0; [congruence|]. cbn [Nat.eqb]. repeat split; lia.
    + destruct (Nat.eqb (S n0) o0); repeat split; lia.
Qed.

Lemma alloc_word_weak n : 0 <= n < LIM -> weak (alloc_word n) = 1 /\ weaked (alloc_word n) = false /\ destructed (alloc_word n) = false.
Proof.
  intros Hn. unfold LIM in Hn. destruct (alloc_word_fields n) as (Hw & _ & E1 & E2 & E3 & _); [lia|].
  rewrite weak_spec, weaked_spec, destructed_spec by auto. rewrite E1, E2, E3. auto.
Qed.

Lemma wop_alloc s t x x1 fs opc n :
  Winv s -> gett s t = Some x -> frames x = [FOp] -> 0 < n < LIM ->
  Forall (frame_wst (fst (alloc s n))) fs ->
  (forall o, o <> O ->
     sumZ (handle_weak o) (vars x1) + sumZ (frame_weak o) fs = sumZ (handle_weak o) (vars x) /\
     0 <= sumZ (handle_weak o) (vars x1) + sumZ (frame_wneg o) fs /\
     sumZ (frame_dealloc_attempt o) fs = 0 /\ sumZ (frame_g o) fs = 0 /\ sumZ (frame_disp o) fs = 0) ->
  Winv (sett (fst (alloc s n)) t (with_frames x1 (fs ++ op_tail opc))).
Proof.
  intros HW Hx Hf Hn Hst Hcr. pose proof HW as (HA & HN & HT & HD & HF).
  set (s1 := fst (alloc s n)) in *. set (o1 := snd (alloc s n)) in *.
  assert (Hx1 : gett s1 t = Some x) by exact Hx.
  destruct (alloc_word_weak n ltac:(lia)) as (W1 & W2 & W3).
  apply (wstep_intro s t x s1 _ 0); auto.
  - intros o Ho. destruct (Hcr o Ho) as (_ & C2 & _). destruct (op_tail_weak o opc) as (_ & T2 & _).
    unfold thr_wneg. cbn [vars frames with_frames]. rewrite sumZ_app, T2. lia.
  - intros o ob Hg. exists ob. split; auto. unfold s1. rewrite geto_alloc_old; auto.
    intros ->. rewrite geto_alloc_none in Hg. discriminate.
  - apply Wex0; auto.
  - cbn [frames with_frames]. apply Forall_app. split; auto. unfold op_tail. repeat constructor.
  - intros o Ho. destruct (Hcr o Ho) as (C1 & C2 & C3 & C4 & C5). destruct (op_tail_weak o opc) as (T1 & T2 & T3 & T4 & T5).
    assert (E : wowners (sett s1 t (with_frames x1 (fs ++ op_tail opc))) o = wowners s o /\
                dealloc_attempts (sett s1 t (with_frames x1 (fs ++ op_tail opc))) o = dealloc_attempts s o /\
                gfr (sett s1 t (with_frames x1 (fs ++ op_tail opc))) o = gfr s o /\
                disp (sett s1 t (with_frames x1 (fs ++ op_tail opc))) o = disp s o).
    { rewrite (wowners_sett _ _ _ _ _ Hx1), (datt_sett _ _ _ _ _ Hx1), (gfr_sett _ _ _ _ _ Hx1), (disp_sett _ _ _ _ _ Hx1).
      unfold s1. rewrite (wowners_tp _ _ _ (tp_eq_alloc s n)), (datt_tp _ _ _ (tp_eq_alloc s n)), (gfr_tp _ _ _ (tp_eq_alloc s n)), (disp_tp _ _ _ (tp_eq_alloc s n)).
      unfold thr_weak, thr_datt, thr_g, thr_disp. cbn [vars frames with_frames]. rewrite Hf, !sumZ_app, T1, T3, T4, T5, !sumZ_cons, !sumZ_nil.
      cbn [frame_weak frame_dealloc_attempt frame_g frame_disp]. lia. }
    destruct E as (Ew & Ea & Eg & Ed).
    destruct (Nat.eq_dec o o1) as [->|Hne].
    + unfold s1, o1. rewrite geto_alloc_new. fold s1 o1.
      destruct (HN o1 Ho (geto_alloc_none s n)) as (H1 & H2 & H3). split.
      * intros _. constructor; unfold gsh; cbn [word wtok dropped]; rewrite ?Ew, ?Ea, ?Eg, ?H1, ?H2, ?H3, ?W1; cbn; try lia.
      * split; [cbn [word]; rewrite W3; discriminate | cbn [freed]; discriminate].
    + change (geto s1 o) with (geto (fst (alloc s n)) o). rewrite geto_alloc_old by auto. destruct (geto s o) as [ob|] eqn:Hg.
      * split; [intros Hfr; apply (wobj_transfer s _ o ob ob); auto; apply wview_refl|].
        split; [intros Hdd; rewrite Ed; auto|]. intros Hfr. rewrite Ew, Eg. apply (HF _ _ Hg); auto.
      * rewrite Ew, Ea, Eg. auto.
Qed.

Ltac walloc_credits Hv :=
  intros ?o0 ?Ho0; rewrite ?sumZ_cons, ?sumZ_nil; cbn [frame_weak frame_wneg frame_dealloc_attempt frame_g frame_disp];
  match goal with |- context [sumZ (handle_weak ?o) ?l] => pose proof (handles_weak_nonneg o l) end.

Lemma wsop_0 s t x x0 rec d : wsop_goal s t x x0 rec [0; d].
Proof.
  intros s1 x1 fs o HW HI Hx Hf Hv Hok Hs. wsop_start Hs Hok Hdf Hv [0; d].
  rewrite (alloc_pair s 1) in Hs. inversion Hs; subst s1 x1 fs o; clear Hs.
  apply (wop_alloc s t x _ [] _ 1); auto; try (unfold LIM; lia); vars_norm.
  intros o0 Ho0. rewrite !sumZ_nil. rewrite (sumZ_setv_weak0' _ _ x) by auto. pose proof (handles_weak_nonneg o0 (vars x)). repeat split; lia.
Qed.

Lemma wsop_2 s t x x0 rec c d : wsop_goal s t x x0 rec [2; c; d].
Proof.
  intros s1 x1 fs o HW HI Hx Hf Hv Hok Hs. wsop_start Hs Hok Hdf Hv [2; c; d]. destruct Hok as (Hc & Hd).
  destruct (Z.eqb_spec c 0) as [->|Hne].
  - rewrite (alloc_pair s 1) in Hs. inversion Hs; subst s1 x1 fs o; clear Hs.
    apply (wop_alloc s t x _ _ _ 1); auto; try (unfold LIM; lia); vars_norm.
    + repeat constructor.
    + intros o0 Ho0. rewrite (sumZ_setv_weak0' _ _ x) by auto. pose proof (handles_weak_nonneg o0 (vars x)).
      rewrite ?sumZ_cons, ?sumZ_nil; cbn [frame_weak frame_wneg frame_dealloc_attempt frame_g frame_disp]. repeat split; lia.
  - rewrite (alloc_pair s c) in Hs. inversion Hs; subst s1 x1 fs o; clear Hs.
    apply (wop_alloc s t x _ [] _ c); auto; try lia; vars_norm.
    intros o0 Ho0. rewrite !sumZ_nil. rewrite (sumZ_setv_weak0' _ _ x) by auto. pose proof (handles_weak_nonneg o0 (vars x)). repeat split; lia.
Qed.

Lemma wsop_1 s t x x0 rec n d : wsop_goal s t x x0 rec [1; n; d].
Proof.
  intros s1 x1 fs o HW HI Hx Hf Hv Hok Hs. sop_open Hs. cbn [op_ok] in Hok. destruct Hok as (Hn & Hd).
  destruct (dst_free x0 [1; n; d]) eqn:Hdf; cbn [negb] in Hs; [|wnoop Hs]. cbn [dst_free] in Hdf.
  pose proof (range_free_spec _ _ _ Hdf) as Hfree.
  destruct (Z.eqb_spec n 0) as [->|Hne].
  - rewrite (alloc_pair s 1) in Hs. inversion Hs; subst s1 x1 fs o; clear Hs.
    apply (wop_alloc s t x _ _ _ 1); auto; try (unfold LIM; lia).
    + repeat constructor.
    + intros o0 Ho0. rewrite Hv. pose proof (handles_weak_nonneg o0 (vars x)).
      rewrite ?sumZ_cons, ?sumZ_nil; cbn [frame_weak frame_wneg frame_dealloc_attempt frame_g frame_disp]. repeat split; lia.
  - rewrite (alloc_pair s n) in Hs. inversion Hs; subst s1 x1 fs o; clear Hs.
    apply (wop_alloc s t x _ [] _ n); auto; try lia; cbn [vars with_vars].
    intros o0 Ho0. rewrite !sumZ_nil, Hv. rewrite sumZ_set_range0; auto.
    + pose proof (handles_weak_nonneg o0 (vars x)). repeat split; lia.
    + intros j Hj. rewrite <- Hv. apply (Hfree j Hj).
Qed.

(* ---- all frames (weak) *)
Lemma wstart_op_inv s t x x0 rec op : wsop_goal s t x x0 rec op.
Proof.
  destruct (known_shape op) eqn:Hk.
  - apply known_shape_true in Hk. destruct Hk;
      eauto using wsop_0, wsop_1, wsop_2, wsop_3, wsop_4, wsop_5, wsop_6, wsop_7, wsop_8, wsop_9, wsop_10, wsop_11, wsop_12, wsop_13,
        wsop_14, wsop_15, wsop_16, wsop_17, wsop_18, wsop_19, wsop_20, wsop_21, wsop_24, wsop_25, wsop_30, wsop_31, wsop_32, wsop_33.
  - intros s1 x1 fs o HW HI Hx Hf Hv Hok Hs. rewrite start_op_unknown in Hs by auto. wnoop Hs.
Qed.

Lemma wmicro_FOp s t rec s' obs x k :
  Winv s -> Inv' s -> bounded s -> gett s t = Some x -> frames x = FOp :: k ->
  micro s t rec = Some (s', obs) -> Winv s'.
Proof.
  intros HW HI HB Hx Hf Hm. pose proof (Inv'_thr_wf _ _ _ HI Hx) as Wx.
  pose proof (FOp_bottom _ _ Wx Hf) as ->. open_micro Hm Hx Hf.
  destruct (prog x) as [|op rest] eqn:Hp.
  - inversion Hm; subst s' obs; clear Hm. change (with_frames x []) with (with_frames x ([] ++ [])).
    eapply wstep_neutral; try eassumption; try threads_solve; try pending_solve; wviews_solve; try solve [wcredits]; try solve [repeat constructor].
  - match type of Hm with context [start_op s ?X0 rec op] => set (x0 := X0) in * end.
    destruct (start_op s x0 rec op) as [[[s1 x1] fs] o] eqn:Hs.
    inversion Hm; subst s' obs; clear Hm.
    change (FMay :: FOpEnd (hd 0 op) :: [FOp]) with (op_tail (hd 0 op)).
    eapply (wstart_op_inv s t x x0 rec op); eauto.
    destruct HB as (_ & _ & HP). specialize (HP _ _ Hx). rewrite Hp in HP. inversion HP; auto.
Qed.

Theorem wmicro_inv s t rec s' o :
  Winv s -> Inv' s -> counted_ok s -> bounded s -> bounded s' -> micro s t rec = Some (s', o) -> Winv s'.
Proof.
  intros HW HI HC HB HB' Hm. destruct (micro_top _ _ _ _ _ Hm) as (x & f & k & Hx & Hf).
  destruct f.
  - eapply wmicro_FStart; eauto.
  - eapply wmicro_FOp; eauto.
  - eapply wmicro_FOpEnd; eauto.
  - eapply wmicro_FRet; eauto.
  - eapply wmicro_FMay; eauto.
  - eapply wmicro_FAwait; eauto.
  - eapply wmicro_FEndClosure; eauto.
  - eapply wmicro_FUnpinTmp; eauto.
  - eapply (wmicro_FIncS s t rec s' o x k o0 k0 _ (or_introl eq_refl)); eauto.
  - eapply (wmicro_FIncS s t rec s' o x k o0 k0 _ (or_intror eq_refl)); eauto.
  - eapply wmicro_FDecS110; eauto.
  - eapply wmicro_FDecS111; eauto.
  - eapply wmicro_FDecS112; eauto.
  - eapply wmicro_FTD113; eauto.
  - eapply wmicro_FTD114; eauto.
  - eapply wmicro_FDispEnter; eauto.
  - eapply wmicro_FDisp115; eauto.
  - eapply wmicro_FDisp116; eauto.
  - eapply wmicro_FDisp130; eauto.
  - eapply wmicro_FDispDo; eauto.
  - eapply wmicro_FDisp117; eauto.
  - eapply wmicro_FKids; eauto.
  - eapply wmicro_FKid118; eauto.
  - eapply wmicro_FKid119; eauto.
  - eapply wmicro_FDecW107; eauto. apply HC.
  - eapply wmicro_FTDe102; eauto.
  - eapply wmicro_FIncW103; eauto.
  - eapply wmicro_FIncW104; eauto. apply HC.
  - eapply wmicro_FIncW105; eauto. apply HC.
  - eapply wmicro_FIncW106; eauto. apply HC.
  - eapply wmicro_FIsND108; eauto.
  - eapply wmicro_FIsND109; eauto.
  - eapply wmicro_FLoad121; eauto.
  - eapply wmicro_FSwap122; eauto.
  - eapply wmicro_FSwap120; eauto.
  - eapply wmicro_FCas120; eauto.
  - eapply wmicro_FCas123; eauto.
Qed.
Print Assumptions wmicro_inv.

(* ---- initial states, runs, theorems *)
Theorem Winv_fresh s : fresh_start s -> Winv s.
Proof.
  intros (Ho & Hp & Hc & Ht). rewrite Forall_forall in Ht.
  assert (Hg : forall o, geto s o = None) by (intros [|i]; cbn; auto; rewrite Ho; destruct i; auto).
  assert (Hthr : forall x, In x (threads s) -> Forall (fun h => h = HNone) (vars x) /\ frames x = [FStart; FOp]).
  { intros x Hx. destruct (Ht x Hx) as (A & B & _). auto. }
  assert (Hhw : forall o x, In x (threads s) -> sumZ (handle_weak o) (vars x) = 0).
  { intros o x Hx. destruct (Hthr x Hx) as (A & _). apply sumZ_zero. intros h Hh. rewrite Forall_forall in A. rewrite (A h Hh). reflexivity. }
  split; [|split; [|split; [|split]]].
  5:{ intros o ob H. rewrite Hg in H. discriminate. }
  - intros o ob H. rewrite Hg in H. discriminate.
  - intros o Hno _. split; [|split].
    + unfold wowners. apply sumZ_zero. intros x Hx. destruct (Hthr x Hx) as (A & B). unfold thr_weak. rewrite (Hhw o x Hx), B, !sumZ_cons, sumZ_nil. cbn. lia.
    + unfold dealloc_attempts. rewrite Hp, sumZ_nil. rewrite sumZ_zero; [lia|].
      intros x Hx. destruct (Hthr x Hx) as (A & B). rewrite B, !sumZ_cons, sumZ_nil. cbn. lia.
    + unfold gfr. apply sumZ_zero. intros x Hx. destruct (Hthr x Hx) as (A & B). rewrite B, !sumZ_cons, sumZ_nil. cbn. lia.
  - intros t x Hx. apply nth_error_In in Hx. destruct (Hthr x Hx) as (A & B). split.
    + intros o _. unfold thr_wneg. rewrite (Hhw o x Hx), B, !sumZ_cons, sumZ_nil. cbn. lia.
    + rewrite B. repeat constructor.
  - intros o ob H. rewrite Hg in H. discriminate.
Qed.

(* both invariants along runs; the weak one provides [tde_ok] *)
Theorem mrun_full sched : forall s0, Inv' s0 -> Winv s0 -> bounded_run s0 sched -> live_counted s0 sched ->
  tde_run s0 sched /\ Inv' (mrun s0 sched) /\ Winv (mrun s0 sched).
Proof.
  induction sched as [|[t rec] r IH]; intros s0 HI HW HB HC; cbn [mrun tde_run].
  - pose proof (Winv_tde _ HW). auto.
  - cbn [bounded_run live_counted] in HB, HC. destruct HB as (HB0 & HB), HC as (HC0 & HC).
    pose proof (Winv_tde _ HW) as HT.
    destruct (micro s0 t rec) as [[s' o]|] eqn:Hm.
    + assert (HB' : bounded s') by (eapply bounded_run_head; eauto).
      destruct (IH s') as (A & B & C); auto.
      * eapply micro_inv; eauto.
      * eapply wmicro_inv; eauto.
    + destruct (IH s0) as (A & B & C); auto.
Qed.

Lemma run_hyps_of s0 sched : fresh_start s0 -> bounded_run s0 sched -> live_counted s0 sched -> run_hyps s0 sched.
Proof.
  intros H1 H2 H3. split; [auto|]. split; [auto|]. split; [auto|]. apply (mrun_full sched s0); auto using Inv_fresh, Winv_fresh.
Qed.

Theorem mrun_inv s0 sched : fresh_start s0 -> bounded_run s0 sched -> live_counted s0 sched -> Inv' (mrun s0 sched).
Proof. intros. apply (mrun_full sched s0); auto using Inv_fresh, Winv_fresh. Qed.

Theorem C01 : C01_statement.
Proof. intros s0 sched H1 H2 H3. apply C01_tde. apply run_hyps_of; auto. Qed.
Theorem C04 : C04_statement.
Proof. intros s0 sched t rec s' obs H1 H2 H3 s Hm o ob ob' Hg Hg'. apply (C04_tde s0 sched t rec s' obs (run_hyps_of _ _ H1 H2 H3) Hm o ob ob' Hg Hg'). Qed.
Theorem C05_monotone : C05_monotone_statement.
Proof. intros s0 sched t rec s' obs H1 H2 H3. apply C05_monotone_tde. apply run_hyps_of; auto. Qed.
Theorem C05_upgrade : C05_upgrade_statement.
Proof. intros s0 sched t rec s' obs x o c k H1 H2 H3. apply C05_upgrade_tde. apply run_hyps_of; auto. Qed.
Theorem C10 : C10_statement.
Proof. intros s0 sched H1 H2 H3. apply C10_tde. apply run_hyps_of; auto. Qed.

Print Assumptions C01.
Print Assumptions C04.
Print Assumptions C05_monotone.
Print Assumptions C05_upgrade.
Print Assumptions C10.
Print Assumptions mrun_inv.

(* the hypotheses of the five theorems hold on the non-trivial run of RcP.ex_hyps *)
Lemma run_hyps_theorem_hyps s0 sched : run_hyps s0 sched -> fresh_start s0 /\ bounded_run s0 sched /\ live_counted s0 sched.
Proof. intros (A & B & C & _). auto. Qed.
Example ex_theorem_hyps :
  fresh_start ex_s0 /\ bounded_run ex_s0 (ex_sched 20 9) /\ live_counted ex_s0 (ex_sched 20 9).
Proof. exact (run_hyps_theorem_hyps _ _ ex_hyps). Qed.

(* ---- C03 (weak-owner half) *)
Theorem C03 : C03_statement.
Proof.
  intros s0 sched H1 H2 H3 s o ob Hg Ho.
  destruct (mrun_full sched s0 (Inv_fresh _ H1) (Winv_fresh _ H1) H2 H3) as (_ & _ & (_ & _ & _ & _ & HF)).
  fold s in HF. destruct (freed ob) eqn:E; auto. destruct (HF _ _ Hg E). lia.
Qed.
Print Assumptions C03.

(* C03 is not vacuous: at the end of the example run a Weak to object 1 is held (weak = 2: the Weak and the share of the
   strong side) and the hypotheses hold along the run *)
Example ex_C03_hyps : fresh_start ex_s0 /\ bounded_run ex_s0 (ex_sched 40 30) /\ live_counted ex_s0 (ex_sched 40 30).
Proof.
  assert (H : run_hyps ex_s0 (ex_sched 40 30)).
  { split; [unfold fresh_start; cbn; repeat split; repeat constructor|]. apply hyps_run_b_ok. vm_compute. reflexivity. }
  exact (run_hyps_theorem_hyps _ _ H).
Qed.
Example ex_C03_state :
  let s := mrun ex_s0 (ex_sched 40 30) in
  (wowners s 1 =? 1) && match geto s 1 with Some ob => (weak (word ob) =? 2) && negb (freed ob) | None => false end = true.
Proof. vm_compute. reflexivity. Qed.
