(* The memory orderings of the source (Gen/OrderW.v, regenerated from /repo on every check) against the reference table
   OrderRef.v.  Every model of this development is sequentially consistent; the orderings and fences of the source are what
   entitles it to be (trusted, not proved: that the reference orderings suffice).  An access may be strengthened, never
   weakened, dropped or added: per file and per kind of access (method name # argument position) the multiset of
   orderings of the current source must dominate the reference multiset in the order
      Relaxed < Acquire, Release < AcqRel < SeqCst      (Acquire and Release incomparable).
   Domination of multisets over this five-element order = Hall's condition on its six non-trivial up-sets. *)
From Coq Require Import ZArith List Bool String.
Import ListNotations.
Require Import OrderW OrderRef.
Local Open Scope Z_scope.

Definition row := (string * string * list Z)%type.

Definition dominates (g r : list Z) : bool :=
  match g, r with
  | [g0; g1; g2; g3; g4], [r0; r1; r2; r3; r4] =>
      (g0 + g1 + g2 + g3 + g4 =? r0 + r1 + r2 + r3 + r4) &&
      (r4 <=? g4) && (r3 + r4 <=? g3 + g4) &&
      (r1 + r3 + r4 <=? g1 + g3 + g4) && (r2 + r3 + r4 <=? g2 + g3 + g4) &&
      (r1 + r2 + r3 + r4 <=? g1 + g2 + g3 + g4)
  | _, _ => false
  end.

Definition lookup (t : list row) (f k : string) : list Z :=
  match find (fun x => String.eqb (fst (fst x)) f && String.eqb (snd (fst x)) k) t with
  | Some x => snd x
  | None => [0; 0; 0; 0; 0]
  end.

Definition file_ok (f : string) (gen ref : list row) : bool :=
  forallb (fun x => if String.eqb (fst (fst x)) f then dominates (lookup gen f (snd (fst x))) (snd x) else true) ref &&
  forallb (fun x => if String.eqb (fst (fst x)) f then dominates (snd x) (lookup ref f (snd (fst x))) else true) gen.

Definition files_ok (fs : list string) : bool := forallb (fun f => file_ok f order_table order_ref) fs.

(* what [dominates] means, for the record: equal number of accesses, and at least as many accesses in every up-set *)
Lemma dominates_spec g0 g1 g2 g3 g4 r0 r1 r2 r3 r4 :
  dominates [g0; g1; g2; g3; g4] [r0; r1; r2; r3; r4] = true <->
  g0 + g1 + g2 + g3 + g4 = r0 + r1 + r2 + r3 + r4 /\ r4 <= g4 /\ r3 + r4 <= g3 + g4 /\
  r1 + r3 + r4 <= g1 + g3 + g4 /\ r2 + r3 + r4 <= g2 + g3 + g4 /\ r1 + r2 + r3 + r4 <= g1 + g2 + g3 + g4.
Proof.
  unfold dominates. rewrite !andb_true_iff, Z.eqb_eq, !Z.leb_le. tauto.
Qed.

(* the same table passes; a weakened access does not (sanity of the checker itself) *)
Example dominates_refl : dominates [1; 2; 3; 4; 5] [1; 2; 3; 4; 5] = true.
Proof. reflexivity. Qed.
Example dominates_strengthen : dominates [0; 1; 0; 0; 1] [1; 0; 0; 0; 1] = true.
Proof. reflexivity. Qed.
Example dominates_weaken : dominates [1; 0; 0; 0; 0] [0; 0; 0; 0; 1] = false.
Proof. reflexivity. Qed.
Example dominates_incomparable : dominates [0; 1; 0; 0; 0] [0; 0; 1; 0; 0] = false.
Proof. reflexivity. Qed.
Example dominates_dropped : dominates [0; 0; 0; 0; 2] [0; 0; 0; 0; 3] = false.
Proof. reflexivity. Qed.
