(* C12(a): the fields of the count word are independent.  All statements are about the GENERATED
   definitions of Gen/StateW.v (the image of src/utils.rs:40-116 and RcInner::alloc). *)
From Coq Require Import ZArith Lia Bool.
Require Import Params StateW Bits.
Local Open Scope Z_scope.

(* ---- layout side conditions on the generated constants (re-checked on every run) *)
Lemma layout_widths :
  EPOCH_WIDTH = 4 /\ EPOCH_MASK_HEIGHT = 60 /\ STRONG_WIDTH = 29 /\ WEAK_WIDTH = 29 /\
  STRONG_WIDTH + WEAK_WIDTH + 2 + EPOCH_WIDTH = 64 /\ EPOCH_WIDTH = HIGH_TAG_WIDTH.
Proof. repeat split; reflexivity. Qed.

Lemma layout_masks :
  STRONG = Z.shiftl (Z.ones STRONG_WIDTH) 0 /\
  WEAK = Z.shiftl (Z.ones WEAK_WIDTH) STRONG_WIDTH /\
  WEAKED = Z.shiftl (Z.ones 1) (STRONG_WIDTH + WEAK_WIDTH) /\
  DESTRUCTED = Z.shiftl (Z.ones 1) (STRONG_WIDTH + WEAK_WIDTH + 1) /\
  EPOCH = Z.shiftl (Z.ones EPOCH_WIDTH) EPOCH_MASK_HEIGHT /\
  COUNT = 1 /\ WEAK_COUNT = 2 ^ STRONG_WIDTH.
Proof. repeat split; reflexivity. Qed.

Definition word (w : Z) : Prop := 0 <= w < 2 ^ 64.

(* abstract fields *)
Definition f_strong (w : Z) := w mod 2 ^ 29.
Definition f_weak (w : Z) := (w / 2 ^ 29) mod 2 ^ 29.
Definition f_weaked (w : Z) := (w / 2 ^ 58) mod 2.
Definition f_destructed (w : Z) := (w / 2 ^ 59) mod 2.
Definition f_epoch (w : Z) := w / 2 ^ 60.

Lemma word_decompose w : word w ->
  w = f_strong w + 2 ^ 29 * f_weak w + 2 ^ 58 * f_weaked w + 2 ^ 59 * f_destructed w + 2 ^ 60 * f_epoch w.
Proof. unfold word, f_strong, f_weak, f_weaked, f_destructed, f_epoch. lia. Qed.

Lemma land_STRONG w : Z.land w STRONG = w mod 2 ^ 29.
Proof.
  replace STRONG with (Z.shiftl (Z.ones 29) 0) by reflexivity.
  rewrite land_shifted_ones by lia. change (2 ^ 0) with 1. rewrite Z.div_1_r. lia.
Qed.
Lemma land_WEAK w : Z.land w WEAK = ((w / 2 ^ 29) mod 2 ^ 29) * 2 ^ 29.
Proof. replace WEAK with (Z.shiftl (Z.ones 29) 29) by reflexivity. apply land_shifted_ones; lia. Qed.
Lemma land_WEAKED w : Z.land w WEAKED = ((w / 2 ^ 58) mod 2) * 2 ^ 58.
Proof. replace WEAKED with (Z.shiftl (Z.ones 1) 58) by reflexivity. rewrite land_shifted_ones by lia. reflexivity. Qed.
Lemma land_DESTRUCTED w : Z.land w DESTRUCTED = ((w / 2 ^ 59) mod 2) * 2 ^ 59.
Proof. replace DESTRUCTED with (Z.shiftl (Z.ones 1) 59) by reflexivity. rewrite land_shifted_ones by lia. reflexivity. Qed.
Lemma land_EPOCH w : Z.land w EPOCH = ((w / 2 ^ 60) mod 2 ^ 4) * 2 ^ 60.
Proof. replace EPOCH with (Z.shiftl (Z.ones 4) 60) by reflexivity. apply land_shifted_ones; lia. Qed.

Lemma consts_range :
  0 <= STRONG < 2 ^ 64 /\ 0 <= WEAK < 2 ^ 64 /\ 0 <= WEAKED < 2 ^ 64 /\ 0 <= DESTRUCTED < 2 ^ 64 /\ 0 <= EPOCH < 2 ^ 64.
Proof. vm_compute. repeat split; congruence. Qed.

(* ---- accessors in arithmetic form *)
Lemma strong_spec w : word w -> strong w = f_strong w.
Proof.
  intros Hw. unfold strong, f_strong. rewrite land_STRONG. change COUNT with 1. rewrite Z.div_1_r.
  unfold wrap, word in *. lia.
Qed.
Lemma weak_spec w : word w -> weak w = f_weak w.
Proof.
  intros Hw. unfold weak, f_weak. rewrite land_WEAK. change WEAK_COUNT with (2 ^ 29).
  unfold wrap, word in *. lia.
Qed.
Lemma weaked_spec w : word w -> weaked w = (f_weaked w =? 1).
Proof.
  intros Hw. unfold weaked, f_weaked. rewrite land_WEAKED. unfold word in *.
  destruct (Z.eqb_spec ((w / 2 ^ 58) mod 2 * 2 ^ 58) 0); destruct (Z.eqb_spec ((w / 2 ^ 58) mod 2) 1); cbn; lia.
Qed.
Lemma destructed_spec w : word w -> destructed w = (f_destructed w =? 1).
Proof.
  intros Hw. unfold destructed, f_destructed. rewrite land_DESTRUCTED. unfold word in *.
  destruct (Z.eqb_spec ((w / 2 ^ 59) mod 2 * 2 ^ 59) 0); destruct (Z.eqb_spec ((w / 2 ^ 59) mod 2) 1); cbn; lia.
Qed.
Lemma epoch_spec w : word w -> epoch w = f_epoch w.
Proof.
  intros Hw. unfold epoch, f_epoch. rewrite land_EPOCH. change EPOCH_MASK_HEIGHT with 60.
  rewrite Z.shiftr_div_pow2 by lia. unfold wrap, word in *. lia.
Qed.

(* ---- updaters in arithmetic form *)
Lemma with_epoch_spec w e : word w -> 0 <= e ->
  with_epoch w e = w - 2 ^ 60 * f_epoch w + 2 ^ 60 * (e mod 16).
Proof.
  intros Hw He. unfold with_epoch, from_raw, f_epoch.
  pose proof consts_range as (_ & _ & _ & _ & HE).
  rewrite land_bnot by (auto; exact Hw).
  rewrite lor_cleared by (auto; exact Hw).
  rewrite !land_EPOCH. change EPOCH_MASK_HEIGHT with 60.
  rewrite Z.shiftl_mul_pow2 by lia. unfold wrap, word in *. lia.
Qed.

Lemma with_destructed_spec w b : word w ->
  with_destructed w b = w - 2 ^ 59 * f_destructed w + 2 ^ 59 * Z.b2z b.
Proof.
  intros Hw. unfold with_destructed, from_raw, f_destructed.
  pose proof consts_range as (_ & _ & _ & HD & _).
  rewrite land_bnot by (auto; exact Hw).
  rewrite lor_cleared' by (auto; try exact Hw; destruct b; reflexivity).
  rewrite land_DESTRUCTED. destruct b; cbn [Z.b2z]; change DESTRUCTED with (2 ^ 59); unfold word in *; lia.
Qed.

Lemma with_weaked_spec w b : word w ->
  with_weaked w b = w - 2 ^ 58 * f_weaked w + 2 ^ 58 * Z.b2z b.
Proof.
  intros Hw. unfold with_weaked, from_raw, f_weaked.
  pose proof consts_range as (_ & _ & HD & _ & _).
  rewrite land_bnot by (auto; exact Hw).
  rewrite lor_cleared' by (auto; try exact Hw; destruct b; reflexivity).
  rewrite land_WEAKED. destruct b; cbn [Z.b2z]; change WEAKED with (2 ^ 58); unfold word in *; lia.
Qed.

Lemma add_strong_spec w v : word w -> 0 <= v < 2 ^ 32 -> w + v < 2 ^ 64 -> add_strong w v = w + v.
Proof. intros Hw Hv Hs. unfold add_strong, from_raw, wrap. change COUNT with 1. unfold word in *. lia. Qed.
Lemma sub_strong_spec w v : word w -> 0 <= v < 2 ^ 32 -> v <= w -> sub_strong w v = w - v.
Proof. intros Hw Hv Hs. unfold sub_strong, from_raw, wrap. change COUNT with 1. unfold word in *. lia. Qed.
Lemma add_weak_spec w v : word w -> 0 <= v < 2 ^ 32 -> w + 2 ^ 29 * v < 2 ^ 64 -> add_weak w v = w + 2 ^ 29 * v.
Proof. intros Hw Hv Hs. unfold add_weak, from_raw, wrap. change WEAK_COUNT with (2 ^ 29). unfold word in *. lia. Qed.

Ltac fields := unfold word, f_strong, f_weak, f_weaked, f_destructed, f_epoch in *.

(* ---- the independence theorems: each updater, every accessor *)
Record same_except (w w' : Z) (s k wd d e : bool) : Prop := {
  se_word : word w';
  se_strong : s = false -> f_strong w' = f_strong w;
  se_weak : k = false -> f_weak w' = f_weak w;
  se_weaked : wd = false -> f_weaked w' = f_weaked w;
  se_destructed : d = false -> f_destructed w' = f_destructed w;
  se_epoch : e = false -> f_epoch w' = f_epoch w }.

Theorem add_strong_indep w v : word w -> 0 <= v -> f_strong w + v < 2 ^ 29 ->
  same_except w (add_strong w v) true false false false false /\ f_strong (add_strong w v) = f_strong w + v.
Proof.
  intros Hw Hv Hr. rewrite add_strong_spec by (fields; lia).
  split; [split; intros; fields; lia | fields; lia].
Qed.

Theorem sub_strong_indep w v : word w -> 0 <= v <= f_strong w ->
  same_except w (sub_strong w v) true false false false false /\ f_strong (sub_strong w v) = f_strong w - v.
Proof.
  intros Hw Hv. rewrite sub_strong_spec by (fields; lia).
  split; [split; intros; fields; lia | fields; lia].
Qed.

Theorem add_weak_indep w v : word w -> 0 <= v -> f_weak w + v < 2 ^ 29 ->
  same_except w (add_weak w v) false true false false false /\ f_weak (add_weak w v) = f_weak w + v.
Proof.
  intros Hw Hv Hr. rewrite add_weak_spec by (fields; lia).
  split; [split; intros; fields; lia | fields; lia].
Qed.

Theorem with_epoch_indep w e : word w -> 0 <= e ->
  same_except w (with_epoch w e) false false false false true /\ f_epoch (with_epoch w e) = e mod 16.
Proof.
  intros Hw He. rewrite with_epoch_spec by auto.
  split; [split; intros; fields; lia | fields; lia].
Qed.

Theorem with_destructed_indep w b : word w ->
  same_except w (with_destructed w b) false false false true false /\ f_destructed (with_destructed w b) = Z.b2z b.
Proof.
  intros Hw. rewrite with_destructed_spec by auto.
  split; [split; intros; destruct b; cbn [Z.b2z]; fields; lia | destruct b; cbn [Z.b2z]; fields; lia].
Qed.

Theorem with_weaked_indep w b : word w ->
  same_except w (with_weaked w b) false false true false false /\ f_weaked (with_weaked w b) = Z.b2z b.
Proof.
  intros Hw. rewrite with_weaked_spec by auto.
  split; [split; intros; destruct b; cbn [Z.b2z]; fields; lia | destruct b; cbn [Z.b2z]; fields; lia].
Qed.

(* raw fetch_add / fetch_sub of COUNT / WEAK_COUNT multiples, as performed on the AtomicU64 *)
Theorem fetch_add_count_indep w v : word w -> 0 <= v -> f_strong w + v < 2 ^ 29 ->
  same_except w (wrap 64 (w + v * COUNT)) true false false false false /\ f_strong (wrap 64 (w + v * COUNT)) = f_strong w + v.
Proof.
  intros Hw Hv Hr. change COUNT with 1. rewrite wrap_small by (fields; lia).
  split; [split; intros; fields; lia | fields; lia].
Qed.
Theorem fetch_add_weak_indep w v : word w -> 0 <= v -> f_weak w + v < 2 ^ 29 ->
  same_except w (wrap 64 (w + v * WEAK_COUNT)) false true false false false /\ f_weak (wrap 64 (w + v * WEAK_COUNT)) = f_weak w + v.
Proof.
  intros Hw Hv Hr. change WEAK_COUNT with (2 ^ 29). rewrite wrap_small by (fields; lia).
  split; [split; intros; fields; lia | fields; lia].
Qed.
Theorem fetch_sub_weak_indep w : word w -> 1 <= f_weak w ->
  same_except w (wrap 64 (w - WEAK_COUNT)) false true false false false /\ f_weak (wrap 64 (w - WEAK_COUNT)) = f_weak w - 1.
Proof.
  intros Hw Hr. change WEAK_COUNT with (2 ^ 29). rewrite wrap_small by (fields; lia).
  split; [split; intros; fields; lia | fields; lia].
Qed.

Theorem alloc_word_fields n : 0 <= n < 2 ^ 29 ->
  word (alloc_word n) /\ f_strong (alloc_word n) = n /\ f_weak (alloc_word n) = 1 /\
  f_weaked (alloc_word n) = 0 /\ f_destructed (alloc_word n) = 0 /\ f_epoch (alloc_word n) = 0.
Proof.
  intros Hn. unfold alloc_word. change COUNT with 1. change WEAK_COUNT with (2 ^ 29).
  unfold wrap. fields. lia.
Qed.

(* a violation of the range hypothesis really does corrupt the neighbour: the hypotheses are needed *)
Example add_strong_overflow_corrupts : f_weak (add_strong (alloc_word (2 ^ 29 - 1)) 1) <> f_weak (alloc_word (2 ^ 29 - 1)).
Proof. vm_compute. congruence. Qed.
