(* Proofs about the reference-counting model Rc.v: the count invariant of RcSpec.v is preserved by
   every micro transition, and the property theorems C01, C04, C05, C10.  No axioms. *)
From Coq Require Import ZArith List Bool Lia.
Import ListNotations.
Require Import Params StateW DisposeW Bits StateP Rc RcSpec.
Local Open Scope Z_scope.
Arguments sumZ {A} f l : simpl never.

(* ================================================================ list / sum helpers *)
Lemma sumZ_app {A} (f : A -> Z) l1 l2 : sumZ f (l1 ++ l2) = sumZ f l1 + sumZ f l2.
Proof. induction l1 as [|a l1 IH]; [reflexivity|]. unfold sumZ in *. cbn [app fold_right]. lia. Qed.

Lemma sumZ_cons {A} (f : A -> Z) a l : sumZ f (a :: l) = f a + sumZ f l.
Proof. reflexivity. Qed.

Lemma sumZ_nil {A} (f : A -> Z) : sumZ f [] = 0.
Proof. reflexivity. Qed.

Lemma sumZ_set_nth {A} (f : A -> Z) l n a b :
  nth_error l n = Some a -> sumZ f (set_nth l n b) = sumZ f l - f a + f b.
Proof.
  revert n; induction l as [|c l IH]; intros [|n] H; cbn in H; try discriminate.
  - inversion H; subst. cbn [set_nth]. rewrite !sumZ_cons. lia.
  - cbn [set_nth]. rewrite !sumZ_cons. rewrite (IH n H). lia.
Qed.

Lemma set_nth_none {A} (l : list A) n b : nth_error l n = None -> set_nth l n b = l.
Proof.
  revert n; induction l as [|c l IH]; intros [|n] H; cbn in *; try discriminate; auto.
  f_equal; auto.
Qed.

Lemma sumZ_ext {A} (f g : A -> Z) l : (forall a, In a l -> f a = g a) -> sumZ f l = sumZ g l.
Proof.
  induction l; intros H; [reflexivity|]. rewrite !sumZ_cons. rewrite H by (left; auto).
  rewrite IHl; auto. intros; apply H; right; auto.
Qed.

Lemma sumZ_zero {A} (f : A -> Z) l : (forall a, In a l -> f a = 0) -> sumZ f l = 0.
Proof.
  induction l; intros H; [reflexivity|]. rewrite sumZ_cons, H by (left; auto).
  rewrite IHl; auto. intros; apply H; right; auto.
Qed.

Lemma sumZ_nonneg {A} (f : A -> Z) l : (forall a, In a l -> 0 <= f a) -> 0 <= sumZ f l.
Proof.
  induction l; intros H; [rewrite sumZ_nil; lia|]. rewrite sumZ_cons.
  assert (0 <= f a) by (apply H; left; auto).
  assert (0 <= sumZ f l) by (apply IHl; intros; apply H; right; auto). lia.
Qed.

Lemma sumZ_map {A B} (f : B -> Z) (g : A -> B) l : sumZ f (map g l) = sumZ (fun a => f (g a)) l.
Proof. induction l; [reflexivity|]. cbn [map]. rewrite !sumZ_cons. lia. Qed.

Lemma nth_error_set_nth_eq {A} (l : list A) n a b :
  nth_error l n = Some a -> nth_error (set_nth l n b) n = Some b.
Proof.
  revert n; induction l as [|c l IH]; intros [|n] H; cbn in *; try discriminate; auto.
Qed.

Lemma nth_error_set_nth_neq {A} (l : list A) n m b :
  n <> m -> nth_error (set_nth l n b) m = nth_error l m.
Proof.
  revert n m; induction l as [|c l IH]; intros [|n] [|m] H; cbn; auto; try congruence.
Qed.

Lemma nth_error_set_nth_same_none {A} (l : list A) n b :
  nth_error l n = None -> nth_error (set_nth l n b) n = None.
Proof. intros H. rewrite set_nth_none; auto. Qed.

Lemma length_set_nth {A} (l : list A) n b : length (set_nth l n b) = length l.
Proof. revert n; induction l; intros [|n]; cbn; auto. Qed.

Lemma is_o_range o l : 0 <= is_o o l <= 1.
Proof. unfold is_o. destruct (Nat.eqb _ _); lia. Qed.

(* ================================================================ count-word corollaries *)
Notation W := StateP.word.

Lemma with_epoch_spec' w e : W w ->
  with_epoch w e = w - 2 ^ 60 * f_epoch w + 2 ^ 60 * (e mod 16).
Proof.
  intros Hw. unfold with_epoch, from_raw, f_epoch.
  pose proof consts_range as (_ & _ & _ & _ & HE).
  rewrite land_bnot by (auto; exact Hw).
  rewrite lor_cleared by (auto; exact Hw).
  rewrite !land_EPOCH. change EPOCH_MASK_HEIGHT with 60.
  rewrite Z.shiftl_mul_pow2 by lia. unfold wrap, StateP.word in *. lia.
Qed.

(* the three facts the strong side needs about an updated word *)
Definition upd (w w' : Z) (d : Z) : Prop :=
  W w' /\ strong w' = strong w + d /\ destructed w' = destructed w.

Lemma upd_of_fields w w' d : W w -> W w' -> f_strong w' = f_strong w + d -> f_destructed w' = f_destructed w -> upd w w' d.
Proof.
  intros Hw Hw' Hs Hd. split; [auto|]. rewrite !strong_spec, !destructed_spec by auto. rewrite Hs, Hd. auto.
Qed.

Lemma strong_range w : W w -> 0 <= strong w < 2 ^ 29.
Proof. intros H. rewrite strong_spec by auto. unfold f_strong. lia. Qed.

Lemma upd_fadd_count w : W w -> strong w + 1 < 2 ^ 29 -> upd w (fadd w COUNT) 1.
Proof.
  intros Hw Hs. rewrite strong_spec in Hs by auto. unfold fadd. change COUNT with 1.
  assert (E : wrap 64 (w + 1) = w + 1) by (apply wrap_small; fields; lia). rewrite E.
  apply upd_of_fields; auto; fields; lia.
Qed.

Lemma upd_with_epoch w e : W w -> upd w (with_epoch w e) 0.
Proof. intros Hw. rewrite with_epoch_spec' by auto. apply upd_of_fields; auto; fields; lia. Qed.

Lemma upd_sub_strong w c : W w -> 0 <= c <= strong w -> upd w (sub_strong w c) (- c).
Proof.
  intros Hw Hc. rewrite strong_spec in Hc by auto. rewrite sub_strong_spec by (fields; lia).
  apply upd_of_fields; auto; fields; lia.
Qed.

Lemma upd_add_strong w c : W w -> 0 <= c -> strong w + c < 2 ^ 29 -> upd w (add_strong w c) c.
Proof.
  intros Hw Hc Hs. rewrite strong_spec in Hs by auto. rewrite add_strong_spec by (fields; lia).
  apply upd_of_fields; auto; fields; lia.
Qed.

Lemma upd_trans w1 w2 w3 a b : upd w1 w2 a -> upd w2 w3 b -> upd w1 w3 (a + b).
Proof. intros (?&?&E1) (?&?&E2). split; [auto|split; [lia|]]. rewrite E2, E1; auto. Qed.

Lemma with_destructed_true w : W w ->
  W (with_destructed w true) /\ destructed (with_destructed w true) = true /\ strong (with_destructed w true) = strong w.
Proof.
  intros Hw. assert (Hw' : W (with_destructed w true)) by (rewrite with_destructed_spec by auto; cbn [Z.b2z]; fields; lia).
  split; [auto|]. rewrite destructed_spec, !strong_spec by auto. rewrite with_destructed_spec by auto. cbn [Z.b2z].
  split; [apply Z.eqb_eq|]; fields; lia.
Qed.

Lemma weak_range w : W w -> 0 <= weak w < 2 ^ 29.
Proof. intros H. rewrite weak_spec by auto. unfold f_weak. lia. Qed.

Lemma upd_fsub_weak w : W w -> weak (fsub w WEAK_COUNT) < LIM -> upd w (fsub w WEAK_COUNT) 0.
Proof.
  intros Hw Hb. unfold fsub in *. change WEAK_COUNT with (2 ^ 29) in *.
  assert (Hw' : W (wrap 64 (w - 2 ^ 29))) by (apply wrap_range; lia).
  rewrite weak_spec in Hb by auto. unfold LIM in Hb.
  apply upd_of_fields; auto; unfold wrap in *; fields; lia.
Qed.

Lemma upd_fadd_weak w c : W w -> 0 <= c < LIM -> weak w < LIM -> upd w (fadd w (wrap 64 (c * WEAK_COUNT))) 0.
Proof.
  intros Hw Hc Hb. unfold fadd. change WEAK_COUNT with (2 ^ 29).
  rewrite weak_spec in Hb by auto. unfold LIM in *.
  assert (E1 : wrap 64 (c * 2 ^ 29) = c * 2 ^ 29) by (apply wrap_small; lia). rewrite E1.
  assert (E : wrap 64 (w + c * 2 ^ 29) = w + c * 2 ^ 29) by (apply wrap_small; fields; lia). rewrite E.
  apply upd_of_fields; auto; fields; lia.
Qed.

Lemma upd_fadd_weak1 w : W w -> weak w < LIM -> upd w (fadd w WEAK_COUNT) 0.
Proof.
  intros Hw Hb. unfold fadd. change WEAK_COUNT with (2 ^ 29).
  rewrite weak_spec in Hb by auto. unfold LIM in *.
  assert (E : wrap 64 (w + 2 ^ 29) = w + 2 ^ 29) by (apply wrap_small; fields; lia). rewrite E.
  apply upd_of_fields; auto; fields; lia.
Qed.

Lemma upd_with_weaked w b : W w -> upd w (with_weaked w b) 0.
Proof.
  intros Hw. rewrite with_weaked_spec by auto. apply upd_of_fields; auto; destruct b; cbn [Z.b2z]; fields; lia.
Qed.

Lemma upd_add_weak w c : W w -> 0 <= c < LIM -> weak w < LIM -> upd w (add_weak w c) 0.
Proof.
  intros Hw Hc Hb. rewrite weak_spec in Hb by auto. unfold LIM in *.
  rewrite add_weak_spec by (fields; lia). apply upd_of_fields; auto; fields; lia.
Qed.

Lemma weak_with_weaked w b : W w -> weak (with_weaked w b) = weak w.
Proof.
  intros Hw. assert (W (with_weaked w b)) by (rewrite with_weaked_spec by auto; destruct b; cbn [Z.b2z]; fields; lia).
  rewrite !weak_spec by auto. rewrite with_weaked_spec by auto. destruct b; cbn [Z.b2z]; fields; lia.
Qed.

Lemma alloc_word_ok n : 0 <= n < LIM -> W (alloc_word n) /\ strong (alloc_word n) = n /\ destructed (alloc_word n) = false.
Proof.
  intros Hn. unfold LIM in Hn. destruct (alloc_word_fields n) as (Hw & Hs & _ & _ & Hd & _); [lia|].
  split; [auto|]. rewrite strong_spec, destructed_spec by auto. rewrite Hs, Hd. auto.
Qed.

Lemma upd_refl w : W w -> upd w w 0.
Proof. intros. repeat split; auto; try apply H; lia. Qed.

(* ================================================================ state plumbing *)
Definition rc_eq (s s' : state) : Prop :=
  objs s' = objs s /\ cells s' = cells s /\ threads s' = threads s /\ pending s' = pending s.

Lemma rc_eq_refl s : rc_eq s s. Proof. repeat split. Qed.
Lemma rc_eq_trans a b c : rc_eq a b -> rc_eq b c -> rc_eq a c.
Proof. unfold rc_eq. intros (?&?&?&?) (?&?&?&?). repeat split; congruence. Qed.

Lemma rc_eq_set_err s e : rc_eq s (set_err s e). Proof. repeat split. Qed.
Lemma rc_eq_set_G s g : rc_eq s (set_G s g). Proof. repeat split. Qed.

Lemma rc_eq_advance_to n : forall s g, rc_eq s (advance_to n s g).
Proof.
  induction n; intros s g; cbn [advance_to]; [apply rc_eq_refl|].
  destruct (G s <? g); [|apply rc_eq_refl].
  eapply rc_eq_trans; [|apply IHn]. destruct (can_advance s); repeat split.
Qed.
Lemma rc_eq_see_epoch s g : rc_eq s (see_epoch s g).
Proof. apply rc_eq_advance_to. Qed.

Lemma owners_rc_eq s s' o : rc_eq s s' -> owners s' o = owners s o.
Proof. intros (E1&E2&E3&E4). unfold owners. rewrite E1, E2, E3. auto. Qed.
Lemma attempts_rc_eq s s' o : rc_eq s s' -> attempts s' o = attempts s o.
Proof. intros (E1&E2&E3&E4). unfold attempts. rewrite E3, E4. auto. Qed.
Lemma geto_rc_eq s s' o : rc_eq s s' -> geto s' o = geto s o.
Proof. intros (E1&E2&E3&E4). unfold geto. rewrite E1. auto. Qed.
Lemma gett_rc_eq s s' t : rc_eq s s' -> gett s' t = gett s t.
Proof. intros (E1&E2&E3&E4). unfold gett. rewrite E3. auto. Qed.
Lemma get_cell_rc_eq s s' c : rc_eq s s' -> get_cell s' c = get_cell s c.
Proof. intros H. unfold get_cell. rewrite (geto_rc_eq _ _ _ H). destruct H as (E1&E2&E3&E4). rewrite E2. auto. Qed.

(* ---- seto *)
Lemma geto_seto_eq s o ob x : geto s o = Some ob -> geto (seto s o x) o = Some x.
Proof. destruct o; cbn; [discriminate|]. apply nth_error_set_nth_eq. Qed.
Lemma geto_seto_neq s o o' x : o <> o' -> geto (seto s o x) o' = geto s o'.
Proof. destruct o, o'; cbn; auto; try congruence. intros. apply nth_error_set_nth_neq. congruence. Qed.
Lemma gett_seto s o x t : gett (seto s o x) t = gett s t.
Proof. destruct o; reflexivity. Qed.
Lemma attempts_seto s i x o : attempts (seto s i x) o = attempts s o.
Proof. destruct i; reflexivity. Qed.
Lemma owners_seto s i ob x o : geto s i = Some ob ->
  owners (seto s i x) o = owners s o - obj_links_strong o ob + obj_links_strong o x.
Proof.
  destruct i; cbn [geto]; [discriminate|]. intros H. unfold owners, seto. cbn [objs cells threads].
  rewrite (sumZ_set_nth _ _ _ _ _ H). lia.
Qed.
Lemma cells_seto s i x : cells (seto s i x) = cells s.
Proof. destruct i; reflexivity. Qed.
Lemma pending_seto s i x : pending (seto s i x) = pending s.
Proof. destruct i; reflexivity. Qed.

(* ---- sett *)
Definition thr_att (o : nat) (x : thr) : Z := sumZ (frame_attempt o) (frames x).

Lemma geto_sett s t x o : geto (sett s t x) o = geto s o.
Proof. reflexivity. Qed.
Lemma gett_sett_eq s t x y : gett s t = Some x -> gett (sett s t y) t = Some y.
Proof. unfold gett; cbn. apply nth_error_set_nth_eq. Qed.
Lemma gett_sett_neq s t t' y : t <> t' -> gett (sett s t y) t' = gett s t'.
Proof. unfold gett; cbn. apply nth_error_set_nth_neq. Qed.
Lemma owners_sett s t x y o : gett s t = Some x ->
  owners (sett s t y) o = owners s o - thr_strong o x + thr_strong o y.
Proof. unfold gett, owners, sett; cbn [objs cells threads]. intros H. rewrite (sumZ_set_nth _ _ _ _ _ H). lia. Qed.
Lemma attempts_sett s t x y o : gett s t = Some x ->
  attempts (sett s t y) o = attempts s o - thr_att o x + thr_att o y.
Proof. unfold gett, attempts, sett; cbn [pending threads]. intros H. rewrite (sumZ_set_nth _ _ _ _ _ H). unfold thr_att. lia. Qed.

(* ---- defer / pending *)
Lemma rc_like_defer s k o : objs (defer s k o) = objs s /\ cells (defer s k o) = cells s /\ threads (defer s k o) = threads s.
Proof. repeat split. Qed.
Lemma geto_defer s k o o' : geto (defer s k o) o' = geto s o'. Proof. reflexivity. Qed.
Lemma gett_defer s k o t : gett (defer s k o) t = gett s t. Proof. reflexivity. Qed.
Lemma owners_defer s k o o' : owners (defer s k o) o' = owners s o'. Proof. reflexivity. Qed.
Lemma attempts_defer s k o o' :
  attempts (defer s k o) o' = attempts s o' + (if pkind_eqb k KDestruct && Nat.eqb o o' then 1 else 0).
Proof.
  unfold attempts, defer, set_pending; cbn [pending threads]. rewrite sumZ_app, sumZ_cons, sumZ_nil.
  unfold pend_is; cbn [pk po]. lia.
Qed.

Lemma take_pending_sum l k o p rest f : take_pending l k o = Some (p, rest) ->
  sumZ f l = f p + sumZ f rest /\ pk p = k /\ po p = o.
Proof.
  revert p rest; induction l as [|q l IH]; intros p rest H; cbn in H; [discriminate|].
  destruct (pkind_eqb (pk q) k && Nat.eqb (po q) o) eqn:E.
  - inversion H; subst. apply andb_prop in E as [E1 E2]. apply Nat.eqb_eq in E2.
    split; [reflexivity|]. split; auto. destruct (pk p), k; cbn in E1; congruence.
  - destruct (take_pending l k o) as [[q' r']|] eqn:E'; [|discriminate]. inversion H; subst.
    destruct (IH _ _ eq_refl) as (A & B & C). rewrite !sumZ_cons. repeat split; auto. lia.
Qed.

(* ================================================================ the strengthened invariant *)
Definition handle_wf (h : handle) : Prop := match h with HIter _ rem => 0 <= rem | _ => True end.
Definition nostrong (h : handle) : Prop := match h with HRc _ | HIter _ _ | HWeak _ => False | _ => True end.
Definition cont_incs (o : nat) (c : cont) : Prop :=
  exists l, cok c = HRc l /\ fst l = o /\ (cign c = false -> cfail c = HNone).

(* pure well-formedness of a frame of a thread with [n] variables *)
Definition frame_wf (n : nat) (f : frame) : Prop :=
  match f with
  | FRet c b => (cdst c < n)%nat /\ handle_wf (if b then cok c else cfail c)
  | FIncS100 o c | FIncS101 o c => (cdst c < n)%nat /\ cont_incs o c
  | FDecS110 o cnt _ own | FDecS111 o cnt _ _ own | FDecS112 o cnt _ _ _ own => 0 < cnt /\ (own = false -> cnt = 1)
  | FTD114 o old => strong old = 0
  | FDispEnter o d | FDisp115 o d | FDisp116 o d _ => 0 <= d
  | FDisp130 o d _ _ => 0 < d
  | FDispDo _ d _ _ => 0 <= d
  | FDisp117 _ d _ _ _ | FKids d _ _ _ | FKid118 _ d _ _ _ => 0 <= d
  | FKid119 c wc nxt d ne curr _ => 0 <= d /\ (exists e, nxt = with_epoch (sub_strong wc 1) e) /\
      nxt = with_epoch (sub_strong wc 1) (wrap 64 (child_stamp curr ne (snd c) (epoch wc)))
  | FIncW103 _ cnt | FIncW105 _ cnt => 0 < cnt < LIM
  | FIncW104 _ cnt old => 0 < cnt < LIM /\ weaked old = false
  | FIsND108 o c | FIsND109 o _ _ c => (cdst c < n)%nat /\ nostrong (cok c) /\ nostrong (cfail c)
  | FSwap122 _ _ (Some dd) | FSwap120 _ _ (Some dd) => (dd < n)%nat
  | FCas120 _ _ _ src d | FCas123 _ _ _ src d => (src < n)%nat /\ (d < n)%nat /\ src <> d
  | _ => True
  end.

(* what a frame knows about the object it works on *)
Definition frame_st (s : state) (f : frame) : Prop :=
  match f with
  | FDecS110 o _ _ false | FDecS111 o _ _ _ false | FDecS112 o _ _ _ _ false =>
      exists ob, geto s o = Some ob /\ tok ob = true
  | FDispEnter o d | FDisp115 o d | FDisp116 o d _ =>
      d = 0 -> exists ob, geto s o = Some ob /\ destructed (word ob) = true
  | FDispDo o _ _ _ => exists ob, geto s o = Some ob /\ destructed (word ob) = true
  | FDisp117 o _ _ _ _ => exists ob, geto s o = Some ob /\ dropped ob = true
  | _ => True
  end.

Definition not_cas (f : frame) : Prop :=
  match f with FCas120 _ _ _ _ _ | FCas123 _ _ _ _ _ => False | _ => True end.
Definition top_ok (x : thr) : Prop :=
  match frames x with
  | FCas120 _ _ des src _ :: _ => getv x src = HRc des
  | FCas123 _ _ desraw src _ :: _ => exists ts, getv x src = HRc (fst desraw, ts)
  | _ => True
  end.
(* frames that will write a variable slot: the slot is still empty, and there is at most one such frame *)
Definition frame_dst (f : frame) : option nat :=
  match f with
  | FRet c _ | FIncS100 _ c | FIncS101 _ c | FIsND108 _ c | FIsND109 _ _ _ c => Some (cdst c)
  | FLoad121 _ d => Some d
  | FSwap122 _ _ (Some d) | FSwap120 _ _ (Some d) => Some d
  | FCas120 _ _ _ _ d | FCas123 _ _ _ _ d => Some d
  | _ => None
  end.
Definition ndst (f : frame) : Z := match frame_dst f with Some _ => 1 | None => 0 end.
Definition dst_none (x : thr) (f : frame) : Prop :=
  match frame_dst f with Some d => getv x d = HNone | None => True end.
Definition not_op (f : frame) : Prop := match f with FOp => False | _ => True end.
Definition quiet (f : frame) : Prop :=
  frame_dst f = None /\ match f with FIncW103 _ _ | FIncW104 _ _ _ | FIncW105 _ _ | FIncW106 _ => False | _ => True end.
Fixpoint below_op_quiet (l : list frame) : Prop :=
  match l with
  | [] => True
  | FOp :: k => k = []
  | _ :: k => below_op_quiet k
  end.

Definition thr_wf (x : thr) : Prop :=
  Forall handle_wf (vars x) /\ Forall (frame_wf (length (vars x))) (frames x) /\
  top_ok x /\ Forall not_cas (tl (frames x)) /\
  Forall (dst_none x) (frames x) /\ sumZ ndst (frames x) <= 1 /\ below_op_quiet (frames x).

Definition Inv' (s : state) : Prop :=
  (forall o ob, geto s o = Some ob -> obj_inv s o ob) /\
  (forall o, o <> O -> geto s o = None -> owners s o = 0 /\ attempts s o = 0) /\
  (forall t x, gett s t = Some x -> thr_wf x /\ Forall (frame_st s) (frames x)).

Lemma Inv'_Inv s : Inv' s -> Inv s.
Proof. intros (H & _). exact H. Qed.
Lemma Inv'_thr_wf s t x : Inv' s -> gett s t = Some x -> thr_wf x.
Proof. intros (_ & _ & H) Hx. apply (H t x Hx). Qed.

(* ---- non-negativity of every credit *)
Lemma handle_strong_nonneg o h : handle_wf h -> 0 <= handle_strong o h.
Proof. destruct h; cbn; intros; try lia; try apply is_o_range. destruct (Nat.eqb _ _); lia. Qed.

Lemma sumZ_is_o_nonneg o l : 0 <= sumZ (is_o o) l.
Proof. apply sumZ_nonneg. intros. apply is_o_range. Qed.

Lemma frame_strong_nonneg n o f : frame_wf n f -> 0 <= frame_strong o f.
Proof.
  destruct f; cbn; intros H; try lia; try apply is_o_range; try apply sumZ_is_o_nonneg;
    try (pose proof (is_o_range o c); pose proof (sumZ_is_o_nonneg o outs); lia).
  - apply handle_strong_nonneg. apply H.
  - destruct own; [destruct (Nat.eqb _ _)|]; lia.
  - destruct own; [destruct (Nat.eqb _ _)|]; lia.
  - destruct own; [destruct (Nat.eqb _ _)|]; lia.
Qed.

Lemma frame_attempt_range o f : 0 <= frame_attempt o f <= 1.
Proof.
  destruct f; cbn; try lia; try (destruct (Nat.eqb _ _); lia);
    try (destruct own; try lia; destruct (Nat.eqb _ _); lia);
    try (destruct (Nat.eqb _ _ && _); lia).
Qed.

Lemma sumZ_nth_le {A} (f : A -> Z) l n a :
  (forall b, In b l -> 0 <= f b) -> nth_error l n = Some a -> f a <= sumZ f l.
Proof.
  revert n; induction l as [|c l IH]; intros [|n] Hp H; cbn in H; try discriminate.
  - inversion H; subst. rewrite sumZ_cons. assert (0 <= sumZ f l) by (apply sumZ_nonneg; intros; apply Hp; right; auto). lia.
  - rewrite sumZ_cons. assert (0 <= f c) by (apply Hp; left; auto).
    assert (f a <= sumZ f l) by (eapply IH; eauto; intros; apply Hp; right; auto). lia.
Qed.

Lemma sumZ_nth2_le {A} (f : A -> Z) l n m a b :
  (forall b, In b l -> 0 <= f b) -> n <> m -> nth_error l n = Some a -> nth_error l m = Some b -> f a + f b <= sumZ f l.
Proof.
  revert n m; induction l as [|c l IH]; intros [|n] [|m] Hp Hne H1 H2; cbn in H1, H2; try discriminate; try congruence.
  - inversion H1; subst. rewrite sumZ_cons. pose proof (sumZ_nth_le f l m b (fun b H => Hp b (or_intror H)) H2). lia.
  - inversion H2; subst. rewrite sumZ_cons. pose proof (sumZ_nth_le f l n a (fun b H => Hp b (or_intror H)) H1). lia.
  - rewrite sumZ_cons. assert (0 <= f c) by (apply Hp; left; auto).
    assert (f a + f b <= sumZ f l) by (eapply (IH n m); eauto; intros; apply Hp; right; auto). lia.
Qed.

Lemma thr_strong_nonneg o x : thr_wf x -> 0 <= thr_strong o x.
Proof.
  intros (Hv & Hf & _). unfold thr_strong.
  assert (0 <= sumZ (handle_strong o) (vars x)).
  { apply sumZ_nonneg. intros a Ha. apply handle_strong_nonneg. rewrite Forall_forall in Hv. auto. }
  assert (0 <= sumZ (frame_strong o) (frames x)).
  { apply sumZ_nonneg. intros a Ha. rewrite Forall_forall in Hf. eapply frame_strong_nonneg; eauto. }
  lia.
Qed.

Lemma thr_att_nonneg o x : 0 <= thr_att o x.
Proof. apply sumZ_nonneg. intros. apply frame_attempt_range. Qed.

Definition all_wf (s : state) : Prop := forall t x, gett s t = Some x -> thr_wf x.

Lemma nth_error_In' {A} (l : list A) b : In b l -> exists n, nth_error l n = Some b.
Proof. apply In_nth_error. Qed.

Lemma threads_strong_nonneg s o : all_wf s -> forall b, In b (threads s) -> 0 <= thr_strong o b.
Proof. intros H b Hb. destruct (In_nth_error _ _ Hb) as (n & Hn). apply thr_strong_nonneg. eapply H; eauto. Qed.

Lemma objs_links_nonneg s o : 0 <= sumZ (obj_links_strong o) (objs s).
Proof. apply sumZ_nonneg. intros. apply sumZ_is_o_nonneg. Qed.

Lemma owners_ge_thr s t x o : all_wf s -> gett s t = Some x -> thr_strong o x <= owners s o.
Proof.
  intros Hw Hx. unfold owners.
  pose proof (sumZ_nth_le (thr_strong o) (threads s) t x (threads_strong_nonneg s o Hw) Hx).
  pose proof (sumZ_is_o_nonneg o (cells s)). pose proof (objs_links_nonneg s o). lia.
Qed.

Lemma owners_nonneg s o : all_wf s -> 0 <= owners s o.
Proof.
  intros Hw. unfold owners.
  assert (0 <= sumZ (thr_strong o) (threads s)) by (apply sumZ_nonneg; apply threads_strong_nonneg; auto).
  pose proof (sumZ_is_o_nonneg o (cells s)). pose proof (objs_links_nonneg s o). lia.
Qed.

Lemma pend_sum_nonneg k o l : 0 <= sumZ (pend_is k o) l.
Proof. apply sumZ_nonneg. intros. unfold pend_is. destruct (_ && _); lia. Qed.

Lemma attempts_ge_thr s t x o : gett s t = Some x -> thr_att o x <= attempts s o.
Proof.
  intros Hx. unfold attempts.
  pose proof (sumZ_nth_le (thr_att o) (threads s) t x (fun b _ => thr_att_nonneg o b) Hx).
  pose proof (pend_sum_nonneg KDestruct o (pending s)). unfold thr_att in *. lia.
Qed.

Lemma attempts_ge_thr2 s t t' x x' o : t <> t' -> gett s t = Some x -> gett s t' = Some x' ->
  thr_att o x + thr_att o x' <= attempts s o.
Proof.
  intros Hne Hx Hx'. unfold attempts.
  pose proof (sumZ_nth2_le (thr_att o) (threads s) t t' x x' (fun b _ => thr_att_nonneg o b) Hne Hx Hx').
  pose proof (pend_sum_nonneg KDestruct o (pending s)). unfold thr_att in *. lia.
Qed.

Lemma attempts_nonneg s o : 0 <= attempts s o.
Proof.
  unfold attempts. pose proof (pend_sum_nonneg KDestruct o (pending s)).
  assert (0 <= sumZ (fun x => sumZ (frame_attempt o) (frames x)) (threads s)).
  { apply sumZ_nonneg. intros. apply (thr_att_nonneg o a). } lia.
Qed.

Lemma thr_att_In o x f : In f (frames x) -> frame_attempt o f <= thr_att o x.
Proof.
  intros H. destruct (In_nth_error _ _ H) as (n & Hn).
  apply (sumZ_nth_le (frame_attempt o) (frames x) n f); auto. intros. apply frame_attempt_range.
Qed.

(* ---- transfer of the per-object invariant *)
Lemma obj_inv_view s s' o ob ob' :
  obj_inv s o ob -> owners s' o = owners s o -> attempts s' o = attempts s o ->
  strong (word ob') = strong (word ob) -> destructed (word ob') = destructed (word ob) ->
  tok ob' = tok ob -> dropped ob' = dropped ob -> freed ob' = freed ob -> obj_inv s' o ob'.
Proof.
  intros [J1 J2 J3 J4 J5 J6] Eo Ea Es Ed Et Edr Efr.
  constructor; rewrite ?Eo, ?Ea, ?Es, ?Ed, ?Et, ?Edr, ?Efr; auto.
Qed.

Lemma obj_inv_same s s' o ob :
  obj_inv s o ob -> owners s' o = owners s o -> attempts s' o = attempts s o -> obj_inv s' o ob.
Proof. intros. eapply obj_inv_view; eauto. Qed.

(* ---- frame knowledge is stable when flags only grow and tokens stay (except on object [ex]) *)
Definition obj_mono (s s' : state) (ex : nat) : Prop :=
  forall o ob, geto s o = Some ob -> exists ob', geto s' o = Some ob' /\
    (o <> ex -> tok ob = true -> tok ob' = true) /\
    (destructed (word ob) = true -> destructed (word ob') = true) /\
    (dropped ob = true -> dropped ob' = true).

Definition dec_false_on (ex : nat) (f : frame) : bool :=
  match f with
  | FDecS110 o _ _ false | FDecS111 o _ _ _ false | FDecS112 o _ _ _ _ false => Nat.eqb o ex
  | _ => false
  end.

Lemma frame_st_mono s s' ex f : obj_mono s s' ex -> dec_false_on ex f = false -> frame_st s f -> frame_st s' f.
Proof.
  intros Hm Hb. destruct f; cbn; auto;
    try (destruct own; auto; intros (ob & Hg & Ht); destruct (Hm _ _ Hg) as (ob' & Hg' & H1 & H2 & H3);
         exists ob'; split; auto; cbn in Hb; apply Nat.eqb_neq in Hb; auto);
    try (intros H Hd; destruct (H Hd) as (ob & Hg & Ht); destruct (Hm _ _ Hg) as (ob' & Hg' & H1 & H2 & H3); exists ob'; auto);
    try (intros (ob & Hg & Ht); destruct (Hm _ _ Hg) as (ob' & Hg' & H1 & H2 & H3); exists ob'; auto).
Qed.

Lemma dec_false_on_0 s f : frame_st s f -> dec_false_on 0 f = false.
Proof.
  destruct f; cbn; auto; destruct own; auto; intros (ob & Hg & _); destruct o; cbn in *; auto; discriminate.
Qed.

Lemma obj_mono_refl_geto s s' ex : (forall o, geto s' o = geto s o) -> obj_mono s s' ex.
Proof. intros H o ob Hg. exists ob. rewrite H. auto. Qed.

(* one object replaced *)
Lemma obj_mono_seto s s1 i ob x ex :
  (forall o, geto s1 o = geto (seto s i x) o) -> geto s i = Some ob ->
  (i <> ex -> tok ob = true -> tok x = true) ->
  (destructed (word ob) = true -> destructed (word x) = true) ->
  (dropped ob = true -> dropped x = true) -> obj_mono s s1 ex.
Proof.
  intros E Hg H1 H2 H3 o ob0 Hg0. rewrite E. destruct (Nat.eq_dec i o) as [->|Hne].
  - rewrite (geto_seto_eq _ _ _ _ Hg). exists x. rewrite Hg in Hg0. inversion Hg0; subst. auto.
  - rewrite geto_seto_neq by auto. exists ob0. auto.
Qed.

Lemma frame_st_ext s s' f : (forall o, geto s' o = geto s o) -> frame_st s f -> frame_st s' f.
Proof. intros H. destruct f; cbn; rewrite ?H; auto. Qed.

Lemma Forall_frame_st_mono s s' ex l :
  obj_mono s s' ex -> Forall (fun f => dec_false_on ex f = false) l -> Forall (frame_st s) l -> Forall (frame_st s') l.
Proof.
  intros Hm H1 H2. rewrite Forall_forall in *. intros f Hf. eapply frame_st_mono; eauto.
Qed.

(* what one transition guarantees: the invariant afterwards, and flags that only grow *)
Definition flags_mono (s s' : state) : Prop :=
  forall o ob, geto s o = Some ob -> exists ob', geto s' o = Some ob' /\
    (destructed (word ob) = true -> destructed (word ob') = true) /\ (dropped ob = true -> dropped ob' = true).
Definition Step (s s' : state) : Prop := Inv' s' /\ flags_mono s s'.

(* ---- the shape of every case of [micro]: thread t goes from x to x', the rest of the state from s to s1 *)
Lemma step_intro s t x s1 x' ex :
  Inv' s -> gett s t = Some x -> threads s1 = threads s ->
  thr_wf x' -> obj_mono s s1 ex ->
  (forall t' x0, t' <> t -> gett s t' = Some x0 -> Forall (fun f => dec_false_on ex f = false) (frames x0)) ->
  Forall (frame_st s1) (frames x') ->
  (forall o, o <> O -> match geto s1 o with
                       | Some ob' => obj_inv (sett s1 t x') o ob'
                       | None => owners (sett s1 t x') o = 0 /\ attempts (sett s1 t x') o = 0
                       end) ->
  Step s (sett s1 t x').
Proof.
  intros (HA & HB & HC) Hx Ht Hwf Hm Hex Hst Hobj.
  assert (Hx1 : gett s1 t = Some x) by (unfold gett in *; rewrite Ht; auto).
  split; [|intros o ob Hg; destruct (Hm o ob Hg) as (ob' & Hg' & _ & M2 & M3); exists ob'; auto].
  split; [|split].
  - intros o ob Hg. rewrite geto_sett in Hg. assert (o <> O) by (intros ->; discriminate).
    specialize (Hobj o H). rewrite Hg in Hobj. auto.
  - intros o Ho Hg. rewrite geto_sett in Hg. specialize (Hobj o Ho). rewrite Hg in Hobj. auto.
  - intros t' x0 Hg. destruct (Nat.eq_dec t t') as [<-|Hne].
    + rewrite (gett_sett_eq _ _ _ _ Hx1) in Hg. inversion Hg; subst. split; auto.
    + rewrite gett_sett_neq in Hg by auto. assert (Hg0 : gett s t' = Some x0) by (unfold gett in *; rewrite <- Ht; auto).
      destruct (HC _ _ Hg0) as (W1 & W2). split; auto.
      eapply Forall_impl; [intros f; apply frame_st_ext; intros; apply geto_sett|].
      eapply Forall_frame_st_mono; eauto.
Qed.

Lemma Hex0 s t : Inv' s ->
  forall t' x0, t' <> t -> gett s t' = Some x0 -> Forall (fun f => dec_false_on 0 f = false) (frames x0).
Proof.
  intros (_ & _ & HC) t' x0 _ Hg. destruct (HC _ _ Hg) as (_ & H).
  eapply Forall_impl; [|exact H]. intros f. apply dec_false_on_0.
Qed.

Lemma thr_strong_with_frames o x1 fs :
  thr_strong o (with_frames x1 fs) = sumZ (handle_strong o) (vars x1) + sumZ (frame_strong o) fs.
Proof. reflexivity. Qed.
Lemma thr_att_with_frames o x1 fs : thr_att o (with_frames x1 fs) = sumZ (frame_attempt o) fs.
Proof. reflexivity. Qed.

Lemma not_cas_top_ok x : match frames x with f :: _ => not_cas f | [] => True end -> top_ok x.
Proof. unfold top_ok. destruct (frames x) as [|[] ?]; cbn; tauto. Qed.

Lemma ndst_range f : 0 <= ndst f <= 1.
Proof. unfold ndst. destruct (frame_dst f); lia. Qed.
Lemma sumZ_ndst_nonneg l : 0 <= sumZ ndst l.
Proof. apply sumZ_nonneg. intros. apply ndst_range. Qed.

Lemma below_op_quiet_app new k : Forall not_op new -> below_op_quiet k -> below_op_quiet (new ++ k).
Proof.
  induction new as [|a new IH]; intros Hn Hk; cbn [app]; auto. inversion Hn; subst.
  destruct a; cbn [below_op_quiet]; auto. contradiction.
Qed.
Lemma below_op_quiet_tl f k : below_op_quiet (f :: k) -> below_op_quiet k.
Proof. destruct f; cbn; try tauto. intros ->. exact I. Qed.

Lemma sumZ_zero_inv {A} (f : A -> Z) l : (forall a, 0 <= f a) -> sumZ f l <= 0 -> forall a, In a l -> f a = 0.
Proof.
  intros Hp. induction l as [|c l IH]; intros Hs a Ha; [destruct Ha|]. rewrite sumZ_cons in Hs.
  assert (0 <= sumZ f l) by (apply sumZ_nonneg; auto). pose proof (Hp c).
  destruct Ha as [->|Ha]; [lia|]. apply IH; auto; lia.
Qed.

(* the new thread is well formed when the new frames are; variables unchanged *)
Lemma thr_wf_push x x1 f k new :
  thr_wf x -> frames x = f :: k -> vars x1 = vars x ->
  Forall (frame_wf (length (vars x))) new -> Forall not_cas new ->
  Forall (dst_none x) new -> sumZ ndst new <= ndst f -> Forall not_op new ->
  thr_wf (with_frames x1 (new ++ k)).
Proof.
  intros (Hv & Hf & Ht & Hn & Hd & Hc & Hq) Hfr Hvars Hnew Hnc Hdn Hnd Hno. rewrite Hfr in *. cbn [tl] in Hn.
  inversion Hf; subst. inversion Hd; subst. unfold thr_wf. cbn [vars frames with_frames]. rewrite Hvars.
  split; [auto|]. split; [apply Forall_app; auto|]. split; [|split; [|split; [|split]]].
  - apply not_cas_top_ok. cbn [frames with_frames]. destruct new as [|a new]; cbn [app].
    + destruct k; auto. inversion Hn; auto.
    + inversion Hnc; auto.
  - destruct new as [|a new]; cbn [app tl].
    + destruct k; cbn [tl]; auto. inversion Hn; auto.
    + inversion Hnc; subst. apply Forall_app; auto.
  - apply Forall_app. split.
    + eapply Forall_impl; [|exact Hdn]. intros a. unfold dst_none, getv. cbn [vars with_frames]. rewrite Hvars. auto.
    + eapply Forall_impl; [|eassumption]. intros a. unfold dst_none, getv. cbn [vars with_frames]. rewrite Hvars. auto.
  - rewrite sumZ_app. rewrite sumZ_cons in Hc. lia.
  - apply below_op_quiet_app; auto. eapply below_op_quiet_tl; eauto.
Qed.

(* the unique slot-writing frame writes: the rest of the stack does not care *)
Lemma thr_wf_write x x1 f k new :
  thr_wf x -> frames x = f :: k -> ndst f = 1 -> length (vars x1) = length (vars x) -> Forall handle_wf (vars x1) ->
  Forall (frame_wf (length (vars x))) new -> Forall not_cas new ->
  Forall (dst_none x1) new -> sumZ ndst new <= 1 -> Forall not_op new ->
  thr_wf (with_frames x1 (new ++ k)).
Proof.
  intros (Hv & Hf & Ht & Hn & Hd & Hc & Hq) Hfr Hf1 Hlen Hv1 Hnew Hnc Hdn Hnd Hno. rewrite Hfr in *. cbn [tl] in Hn.
  inversion Hf; subst. unfold thr_wf. cbn [vars frames with_frames]. rewrite Hlen.
  rewrite sumZ_cons in Hc. pose proof (sumZ_ndst_nonneg k).
  assert (Hk0 : forall a, In a k -> ndst a = 0) by (apply sumZ_zero_inv; [intros; apply ndst_range|lia]).
  split; [auto|]. split; [apply Forall_app; auto|]. split; [|split; [|split; [|split]]].
  - apply not_cas_top_ok. cbn [frames with_frames]. destruct new as [|a new]; cbn [app].
    + destruct k; auto. inversion Hn; auto.
    + inversion Hnc; auto.
  - destruct new as [|a new]; cbn [app tl].
    + destruct k; cbn [tl]; auto. inversion Hn; auto.
    + inversion Hnc; subst. apply Forall_app; auto.
  - apply Forall_app. split.
    + eapply Forall_impl; [|exact Hdn]. intros a. unfold dst_none, getv. cbn [vars with_frames]. auto.
    + apply Forall_forall. intros a Ha. specialize (Hk0 a Ha). unfold ndst, dst_none in *. destruct (frame_dst a); auto; lia.
  - rewrite sumZ_app. rewrite (sumZ_zero ndst k); auto. lia.
  - apply below_op_quiet_app; auto. eapply below_op_quiet_tl; eauto.
Qed.

(* a step that only replaces the top frame by frames carrying the same credits *)
Lemma step_frames_only s s1 t x x1 new k f :
  Inv' s -> gett s t = Some x -> frames x = f :: k -> rc_eq s s1 -> vars x1 = vars x ->
  (forall o, sumZ (frame_strong o) new = frame_strong o f) ->
  (forall o, sumZ (frame_attempt o) new = frame_attempt o f) ->
  thr_wf (with_frames x1 (new ++ k)) -> Forall (frame_st s) new ->
  Step s (sett s1 t (with_frames x1 (new ++ k))).
Proof.
  intros HI Hx Hfr Hrc Hv Hs Ha Hwf Hst.
  pose proof HI as (HA & HB & HC). destruct (HC _ _ Hx) as (Wx & Sx).
  assert (Hgeto : forall o, geto s1 o = geto s o) by (intros; apply geto_rc_eq; auto).
  assert (Hx1 : gett s1 t = Some x) by (rewrite (gett_rc_eq _ _ _ Hrc); auto).
  apply (step_intro s t x s1 _ 0); auto.
  - apply Hrc.
  - apply obj_mono_refl_geto; auto.
  - apply Hex0; auto.
  - cbn [frames with_frames]. rewrite Hfr in Sx. inversion Sx; subst. apply Forall_app. split.
    + eapply Forall_impl; [|exact Hst]. intros; eapply frame_st_ext; eauto.
    + eapply Forall_impl; [|eassumption]. intros; eapply frame_st_ext; eauto.
  - intros o Ho.
    assert (Eo : owners (sett s1 t (with_frames x1 (new ++ k))) o = owners s o).
    { rewrite (owners_sett _ _ _ _ _ Hx1), (owners_rc_eq _ _ _ Hrc). rewrite thr_strong_with_frames.
      unfold thr_strong. rewrite Hv, Hfr, sumZ_app, sumZ_cons, Hs. lia. }
    assert (Ea : attempts (sett s1 t (with_frames x1 (new ++ k))) o = attempts s o).
    { rewrite (attempts_sett _ _ _ _ _ Hx1), (attempts_rc_eq _ _ _ Hrc). rewrite thr_att_with_frames.
      unfold thr_att. rewrite Hfr, sumZ_app, sumZ_cons, Ha. lia. }
    rewrite Hgeto. destruct (geto s o) as [ob|] eqn:Hg.
    + eapply obj_inv_same; eauto.
    + rewrite Eo, Ea. auto.
Qed.

(* ================================================================ the cases of [micro]
   Frames done: FStart FOpEnd FMay FEndClosure FUnpinTmp FIncS100 FIncS101 FDecS110 FDecS111 FDecS112 FTD113 FTD114 FDispEnter FDisp115 FDisp116 FDisp130 FDispDo FDisp117 FKids FKid118 FKid119 FDecW107 FTDe102 FIncW103-106 FIsND108 FIsND109 FRet FLoad121 FSwap122 FSwap120 FCas120 FCas123 FAwait FOp (all 37) *)
Ltac open_micro Hm Hx Hf :=
  unfold micro in Hm; rewrite Hx, Hf in Hm; cbv beta iota zeta in Hm.

Ltac ndst_goal := solve [rewrite ?sumZ_cons, ?sumZ_nil; cbn [ndst frame_dst]; lia].
Ltac wfsub :=
  try reflexivity; try solve [repeat constructor; auto]; try solve [repeat constructor; cbn; auto]; try ndst_goal.
Ltac wfpush :=
  try match goal with
  | |- thr_wf (with_frames _ (_ ++ _)) =>
      eapply thr_wf_push; [eapply Inv'_thr_wf; eassumption | eassumption | ..]; wfsub
  end.
Ltac get_dn Wx Hf Hdn :=
  pose proof Wx as (_ & _ & _ & _ & Hdn & _); rewrite Hf in Hdn; apply Forall_inv in Hdn.
Ltac fr_only s1 x1 new :=
  match goal with
  | HI : Inv' ?s, Hx : gett ?s ?t = Some ?x, Hf : frames ?x = ?f :: ?k |- _ =>
      apply (step_frames_only s s1 t x x1 new k f HI Hx Hf)
  end; wfpush.

Lemma micro_inv_FStart s t rec s' obs x k :
  Inv' s -> gett s t = Some x -> frames x = FStart :: k -> micro s t rec = Some (s', obs) -> Step s s'.
Proof.
  intros HI Hx Hf Hm. open_micro Hm Hx Hf. inversion Hm; subst; clear Hm.
  fr_only s x (@nil frame); auto using rc_eq_refl.
Qed.

Lemma micro_inv_FOpEnd s t rec s' obs x k opc :
  Inv' s -> gett s t = Some x -> frames x = FOpEnd opc :: k -> micro s t rec = Some (s', obs) -> Step s s'.
Proof.
  intros HI Hx Hf Hm. open_micro Hm Hx Hf. inversion Hm; subst; clear Hm.
  fr_only s x (@nil frame); auto using rc_eq_refl.
Qed.

Lemma micro_inv_FMay s t rec s' obs x k :
  Inv' s -> gett s t = Some x -> frames x = FMay :: k -> micro s t rec = Some (s', obs) -> Step s s'.
Proof.
  intros HI Hx Hf Hm. open_micro Hm Hx Hf.
  destruct (inclosure x); [|destruct (has_site rec 2000)]; inversion Hm; subst; clear Hm.
  - fr_only s x (@nil frame); auto using rc_eq_refl.
  - fr_only s x (@nil frame); auto using rc_eq_refl.
  - change (FAwait :: FMay :: k) with ([FAwait; FMay] ++ k).
    fr_only s x [FAwait; FMay]; auto using rc_eq_refl; repeat constructor.
Qed.

Lemma micro_inv_FEndClosure s t rec s' obs x k :
  Inv' s -> gett s t = Some x -> frames x = FEndClosure :: k -> micro s t rec = Some (s', obs) -> Step s s'.
Proof.
  intros HI Hx Hf Hm. open_micro Hm Hx Hf. inversion Hm; subst; clear Hm.
  fr_only s (with_inclosure x false) (@nil frame); auto using rc_eq_refl.
Qed.

Lemma micro_inv_FUnpinTmp s t rec s' obs x k :
  Inv' s -> gett s t = Some x -> frames x = FUnpinTmp :: k -> micro s t rec = Some (s', obs) -> Step s s'.
Proof.
  intros HI Hx Hf Hm. open_micro Hm Hx Hf. inversion Hm; subst; clear Hm.
  fr_only s (with_guard x (pred (gdepth x)) (ann x) (serial x)) (@nil frame); auto using rc_eq_refl.
Qed.

(* a step that rewrites object [i] (and possibly variables, pending list): the other objects must see no
   change of their owners / attempts, the invariant of [i] is re-proved by the caller *)
Lemma step_obj s s1 t x x1 new k f i ob ob' ex :
  Inv' s -> gett s t = Some x -> frames x = f :: k -> threads s1 = threads s ->
  geto s i = Some ob -> (forall o, geto s1 o = geto (seto s i ob') o) ->
  thr_wf (with_frames x1 (new ++ k)) -> Forall (frame_st s1) new ->
  (i <> ex -> tok ob = true -> tok ob' = true) ->
  (destructed (word ob) = true -> destructed (word ob') = true) ->
  (dropped ob = true -> dropped ob' = true) ->
  (forall t' x0, t' <> t -> gett s t' = Some x0 -> Forall (fun f => dec_false_on ex f = false) (frames x0)) ->
  Forall (fun f => dec_false_on ex f = false) k ->
  (forall o, o <> i -> o <> O -> owners (sett s1 t (with_frames x1 (new ++ k))) o = owners s o /\
                       attempts (sett s1 t (with_frames x1 (new ++ k))) o = attempts s o) ->
  obj_inv (sett s1 t (with_frames x1 (new ++ k))) i ob' ->
  Step s (sett s1 t (with_frames x1 (new ++ k))).
Proof.
  intros HI Hx Hfr Hth Hgi Hgeto Hwf Hst Mt Md Mdr Hex Hexk Hoth Hi.
  pose proof HI as (HA & HB & HC). destruct (HC _ _ Hx) as (Wx & Sx).
  assert (Hmono : obj_mono s s1 ex) by (eapply obj_mono_seto; eauto).
  apply (step_intro s t x s1 _ ex); auto.
  - cbn [frames with_frames]. rewrite Hfr in Sx. inversion Sx; subst. apply Forall_app. split; auto.
    eapply Forall_frame_st_mono; eauto.
  - intros o Ho. rewrite Hgeto. destruct (Nat.eq_dec i o) as [<-|Hne].
    + rewrite (geto_seto_eq _ _ _ _ Hgi). auto.
    + rewrite geto_seto_neq by auto. destruct (Hoth o (not_eq_sym Hne) Ho) as (Eo & Ea).
      destruct (geto s o) as [ob0|] eqn:Hg.
      * eapply obj_inv_same; eauto.
      * rewrite Eo, Ea. auto.
Qed.

Lemma obj_inv_dead s o ob : destructed (word ob) = true -> owners s o = 0 -> attempts s o = 0 ->
  (freed ob = true -> dropped ob = true) -> obj_inv s o ob.
Proof. intros Hd Ho Ha Hf. constructor; auto; try congruence; lia. Qed.

Lemma obj_inv_live s o ob : destructed (word ob) = false ->
  strong (word ob) = owners s o + b2z (tok ob) -> 0 <= attempts s o <= 1 ->
  (attempts s o = 1 <-> (strong (word ob) = 0 \/ tok ob = true)) ->
  dropped ob = false -> freed ob = false -> 0 <= owners s o -> obj_inv s o ob.
Proof. intros. constructor; auto; congruence. Qed.

Lemma live_facts s o ob : obj_inv s o ob -> destructed (word ob) = false ->
  strong (word ob) = owners s o + b2z (tok ob) /\ 0 <= attempts s o <= 1 /\
  (attempts s o = 1 <-> (strong (word ob) = 0 \/ tok ob = true)) /\ dropped ob = false /\ freed ob = false /\ 0 <= owners s o.
Proof.
  intros [J1 J2 J3 J4 J5 J6] Hd. destruct (J2 Hd). repeat split; auto; try tauto.
  - destruct (dropped ob) eqn:E; auto. rewrite J3 in Hd; auto.
  - destruct (freed ob) eqn:E; auto. rewrite J3 in Hd; auto.
Qed.

Lemma bounded_word s o ob : bounded s -> geto s o = Some ob -> W (word ob) /\ strong (word ob) < LIM /\ weak (word ob) < LIM.
Proof. intros (H & _) Hg. apply (H o ob Hg). Qed.

Lemma b2z_range b : 0 <= b2z b <= 1. Proof. destruct b; cbn; lia. Qed.
Lemma b2z_true b : b2z b = 1 <-> b = true. Proof. destruct b; cbn; split; auto; try lia; discriminate. Qed.

(* normalisation of owners / attempts of a result state *)
Ltac solve_gett :=
  repeat first [ rewrite gett_seto | rewrite gett_defer
               | rewrite (gett_rc_eq _ _ _ (rc_eq_see_epoch _ _)) | rewrite (gett_rc_eq _ _ _ (rc_eq_set_err _ _)) ];
  eassumption.
Ltac solve_geto :=
  repeat first [ rewrite geto_defer
               | rewrite (geto_rc_eq _ _ _ (rc_eq_see_epoch _ _)) | rewrite (geto_rc_eq _ _ _ (rc_eq_set_err _ _)) ];
  eassumption.
Ltac norm :=
  repeat first
    [ erewrite owners_sett by solve_gett
    | erewrite attempts_sett by solve_gett
    | rewrite owners_defer
    | rewrite attempts_defer
    | erewrite owners_seto by solve_geto
    | rewrite attempts_seto
    | rewrite (owners_rc_eq _ _ _ (rc_eq_see_epoch _ _))
    | rewrite (attempts_rc_eq _ _ _ (rc_eq_see_epoch _ _))
    | rewrite (owners_rc_eq _ _ _ (rc_eq_set_err _ _))
    | rewrite (attempts_rc_eq _ _ _ (rc_eq_set_err _ _)) ];
  rewrite ?thr_strong_with_frames, ?thr_att_with_frames;
  rewrite ?sumZ_app, ?sumZ_cons, ?sumZ_nil.

Lemma threads_seto s i x : threads (seto s i x) = threads s.
Proof. destruct i; reflexivity. Qed.

Lemma Hexk0 s f k : Forall (frame_st s) (f :: k) -> Forall (fun f => dec_false_on 0 f = false) k.
Proof. intros H. inversion H; subst. eapply Forall_impl; [|eassumption]. intros a. apply dec_false_on_0. Qed.

Lemma thr_strong_top o x f k : frames x = f :: k ->
  thr_strong o x = sumZ (handle_strong o) (vars x) + frame_strong o f + sumZ (frame_strong o) k.
Proof. intros H. unfold thr_strong. rewrite H, sumZ_cons. lia. Qed.
Lemma thr_att_top o x f k : frames x = f :: k -> thr_att o x = frame_attempt o f + sumZ (frame_attempt o) k.
Proof. intros H. unfold thr_att. rewrite H, sumZ_cons. lia. Qed.

Lemma is_o_neq o l : fst l <> o -> is_o o l = 0.
Proof. unfold is_o. intros H. apply Nat.eqb_neq in H. rewrite H. auto. Qed.
Lemma is_o_eq l : is_o (fst l) l = 1.
Proof. unfold is_o. rewrite Nat.eqb_refl. auto. Qed.

Ltac credits :=
  cbn [frame_strong frame_attempt handle_strong]; unfold obj_links_strong;
  cbn [links with_word with_tok with_links word tok dropped freed].

Ltac sides Wx :=
  wfpush; try (intros; reflexivity); auto; try (apply Hex0; assumption); try (eapply Hexk0; eassumption);
  try apply Wx; try solve [repeat constructor]; try solve [repeat constructor; cbn; lia];
  try solve [intros; cbn [word tok dropped freed with_tok with_word] in *; congruence].
Ltac on_wf tac := try match goal with |- Forall (frame_wf _) _ => tac end.
Ltac on_st tac := try match goal with |- Forall (frame_st _) _ => tac end.
Ltac on_others tac := try match goal with |- forall o, o <> _ -> o <> O -> _ /\ _ => tac end.
Ltac on_inv tac := try match goal with |- obj_inv _ _ _ => tac end.

(* ---- increment_strong *)
Lemma micro_inv_FIncS100 s t rec s' obs x k o c :
  Inv' s -> counted_ok s -> bounded s -> gett s t = Some x -> frames x = FIncS100 o c :: k ->
  micro s t rec = Some (s', obs) -> Step s s'.
Proof.
  intros HI HC HB Hx Hf Hm. destruct HC as (HC & _). open_micro Hm Hx Hf.
  pose proof HI as (HA & HN & HT). destruct (HT _ _ Hx) as (Wx & Sx). rewrite Hf in Sx. get_dn Wx Hf Hdn0.
  destruct (geto s o) as [ob|] eqn:Hg.
  2:{ inversion Hm; subst; clear Hm. fr_only (set_err s 5) x (@nil frame); auto using rc_eq_set_err. }
  destruct (bounded_word _ _ _ HB Hg) as (Hw & Hs & _). unfold LIM in Hs.
  pose proof (upd_fadd_count _ Hw ltac:(lia)) as (Hw' & Hs' & Hd').
  pose proof (HA _ _ Hg) as Hinv.
  assert (Hwfx := Wx). destruct Hwfx as (_ & Hfw & _). rewrite Hf in Hfw. inversion Hfw as [|? ? Hc _]; subst.
  destruct Hc as (Hcd & l & Hok & Hl & Hfail). subst o.
  assert (Hcr : forall o', frame_strong o' (FRet c true) = is_o o' l) by (intros; cbn; rewrite Hok; reflexivity).
  destruct (destructed (word ob)) eqn:Hd.
  - assert (Hcf : cfail c = HNone).
    { apply Hfail. destruct (cign c) eqn:Hcg; auto. rewrite (HC t x (fst l) c k ob Hx (or_introl Hf) Hcg Hg) in Hd. discriminate. }
    inversion Hm; subst; clear Hm.
    change (FRet c false :: k) with ([FRet c false] ++ k).
    eapply (step_obj s _ t x x [FRet c false] k _ (fst l) ob _ 0 HI Hx Hf (threads_seto _ _ _) Hg); sides Wx.
    all: on_wf ltac:(repeat constructor; cbn; auto; rewrite Hcf; exact I).
    all: on_others ltac:(intros o Ho _; norm; rewrite (thr_strong_top _ _ _ _ Hf), (thr_att_top _ _ _ _ Hf); credits;
                         rewrite Hcf; credits; lia).
    destruct Hinv as [J1 J2 J3 J4 J5 J6]. destruct (J5 Hd). apply obj_inv_dead; auto.
    + norm. rewrite (thr_strong_top _ _ _ _ Hf). credits. rewrite Hcf. credits. lia.
    + norm. rewrite (thr_att_top _ _ _ _ Hf). credits. lia.
  - destruct (live_facts _ _ _ Hinv Hd) as (J1 & J2 & J3 & Jd & Jf & Jo).
    pose proof (b2z_range (tok ob)).
    destruct (Z.eqb_spec (strong (word ob)) 0) as [Hz|Hnz]; inversion Hm; subst; clear Hm.
    + change (FIncS101 (fst l) c :: k) with ([FIncS101 (fst l) c] ++ k).
      eapply (step_obj s _ t x x [FIncS101 (fst l) c] k _ (fst l) ob _ 0 HI Hx Hf (threads_seto _ _ _) Hg); sides Wx.
      all: on_wf ltac:(constructor; [|constructor]; split; auto; exists l; auto).
      all: on_others ltac:(intros o Ho _; norm; rewrite (thr_strong_top _ _ _ _ Hf), (thr_att_top _ _ _ _ Hf); credits; lia).
      match goal with |- obj_inv ?S _ _ => assert (Eo : owners S (fst l) = owners s (fst l));
         [norm; rewrite (thr_strong_top _ _ _ _ Hf); credits; lia|];
         assert (Ea : attempts S (fst l) = attempts s (fst l)); [norm; rewrite (thr_att_top _ _ _ _ Hf); credits; lia|] end.
      apply obj_inv_live; rewrite ?Eo, ?Ea; cbn [word tok dropped freed with_tok with_word]; auto.
      * rewrite Hs'. cbn. lia.
      * split; auto. intros _. apply J3. auto.
    + change (FRet c true :: k) with ([FRet c true] ++ k).
      eapply (step_obj s _ t x x [FRet c true] k _ (fst l) ob _ 0 HI Hx Hf (threads_seto _ _ _) Hg); sides Wx.
      all: on_wf ltac:(repeat constructor; cbn; auto; rewrite Hok; exact I).
      all: on_others ltac:(intros o Ho _; norm; rewrite (thr_strong_top _ _ _ _ Hf), (thr_att_top _ _ _ _ Hf); credits;
                           rewrite Hok; credits; rewrite (is_o_neq o l) by auto; lia).
      match goal with |- obj_inv ?S _ _ => assert (Eo : owners S (fst l) = owners s (fst l) + 1);
         [norm; rewrite (thr_strong_top _ _ _ _ Hf); credits; rewrite Hok; credits; rewrite is_o_eq; lia|];
         assert (Ea : attempts S (fst l) = attempts s (fst l)); [norm; rewrite (thr_att_top _ _ _ _ Hf); credits; lia|] end.
      apply obj_inv_live; rewrite ?Eo, ?Ea; cbn [word tok dropped freed with_tok with_word]; auto; try lia.
      rewrite Hs'. split; intros HH; [apply J3 in HH|apply J3]; destruct HH; auto; lia.
Qed.

Lemma micro_inv_FIncS101 s t rec s' obs x k o c :
  Inv' s -> counted_ok s -> bounded s -> gett s t = Some x -> frames x = FIncS101 o c :: k ->
  micro s t rec = Some (s', obs) -> Step s s'.
Proof.
  intros HI HC HB Hx Hf Hm. destruct HC as (HC & _). open_micro Hm Hx Hf.
  pose proof HI as (HA & HN & HT). destruct (HT _ _ Hx) as (Wx & Sx). rewrite Hf in Sx. get_dn Wx Hf Hdn0.
  destruct (geto s o) as [ob|] eqn:Hg.
  2:{ inversion Hm; subst; clear Hm. fr_only (set_err s 5) x (@nil frame); auto using rc_eq_set_err. }
  destruct (bounded_word _ _ _ HB Hg) as (Hw & Hs & _). unfold LIM in Hs.
  pose proof (upd_fadd_count _ Hw ltac:(lia)) as (Hw' & Hs' & Hd').
  pose proof (HA _ _ Hg) as Hinv.
  assert (Hwfx := Wx). destruct Hwfx as (_ & Hfw & _). rewrite Hf in Hfw. inversion Hfw as [|? ? Hc _]; subst.
  destruct Hc as (Hcd & l & Hok & Hl & Hfail). subst o.
  assert (Hcr : forall o', frame_strong o' (FRet c true) = is_o o' l) by (intros; cbn; rewrite Hok; reflexivity).
  destruct (destructed (word ob)) eqn:Hd.
  - assert (Hcf : cfail c = HNone).
    { apply Hfail. destruct (cign c) eqn:Hcg; auto. rewrite (HC t x (fst l) c k ob Hx (or_intror Hf) Hcg Hg) in Hd. discriminate. }
    inversion Hm; subst; clear Hm.
    change (FRet c false :: k) with ([FRet c false] ++ k).
    eapply (step_obj s _ t x x [FRet c false] k _ (fst l) ob _ 0 HI Hx Hf (threads_seto _ _ _) Hg); sides Wx.
    all: on_wf ltac:(repeat constructor; cbn; auto; rewrite Hcf; exact I).
    all: on_others ltac:(intros o Ho _; norm; rewrite (thr_strong_top _ _ _ _ Hf), (thr_att_top _ _ _ _ Hf); credits;
                         rewrite Hcf; credits; lia).
    destruct Hinv as [J1 J2 J3 J4 J5 J6]. destruct (J5 Hd). apply obj_inv_dead; auto.
    + norm. rewrite (thr_strong_top _ _ _ _ Hf). credits. rewrite Hcf. credits. lia.
    + norm. rewrite (thr_att_top _ _ _ _ Hf). credits. lia.
  - destruct (live_facts _ _ _ Hinv Hd) as (J1 & J2 & J3 & Jd & Jf & Jo).
    pose proof (b2z_range (tok ob)).
    destruct (Z.eqb_spec (strong (word ob)) 0) as [Hz|Hnz]; inversion Hm; subst; clear Hm.
    + change (FIncS101 (fst l) c :: k) with ([FIncS101 (fst l) c] ++ k).
      eapply (step_obj s _ t x x [FIncS101 (fst l) c] k _ (fst l) ob _ 0 HI Hx Hf (threads_seto _ _ _) Hg); sides Wx.
      all: on_wf ltac:(constructor; [|constructor]; split; auto; exists l; auto).
      all: on_others ltac:(intros o Ho _; norm; rewrite (thr_strong_top _ _ _ _ Hf), (thr_att_top _ _ _ _ Hf); credits; lia).
      match goal with |- obj_inv ?S _ _ => assert (Eo : owners S (fst l) = owners s (fst l));
         [norm; rewrite (thr_strong_top _ _ _ _ Hf); credits; lia|];
         assert (Ea : attempts S (fst l) = attempts s (fst l)); [norm; rewrite (thr_att_top _ _ _ _ Hf); credits; lia|] end.
      apply obj_inv_live; rewrite ?Eo, ?Ea; cbn [word tok dropped freed with_tok with_word]; auto.
      * rewrite Hs'. cbn. lia.
      * split; auto. intros _. apply J3. auto.
    + change (FRet c true :: k) with ([FRet c true] ++ k).
      eapply (step_obj s _ t x x [FRet c true] k _ (fst l) ob _ 0 HI Hx Hf (threads_seto _ _ _) Hg); sides Wx.
      all: on_wf ltac:(repeat constructor; cbn; auto; rewrite Hok; exact I).
      all: on_others ltac:(intros o Ho _; norm; rewrite (thr_strong_top _ _ _ _ Hf), (thr_att_top _ _ _ _ Hf); credits;
                           rewrite Hok; credits; rewrite (is_o_neq o l) by auto; lia).
      match goal with |- obj_inv ?S _ _ => assert (Eo : owners S (fst l) = owners s (fst l) + 1);
         [norm; rewrite (thr_strong_top _ _ _ _ Hf); credits; rewrite Hok; credits; rewrite is_o_eq; lia|];
         assert (Ea : attempts S (fst l) = attempts s (fst l)); [norm; rewrite (thr_att_top _ _ _ _ Hf); credits; lia|] end.
      apply obj_inv_live; rewrite ?Eo, ?Ea; cbn [word tok dropped freed with_tok with_word]; auto; try lia.
      rewrite Hs'. split; intros HH; [apply J3 in HH|apply J3]; destruct HH; auto; lia.
Qed.

(* ---- decrement_strong *)
Ltac prep HI Hx Hf HA HN HT Wx Sx Hfw Hst :=
  pose proof HI as (HA & HN & HT); destruct (HT _ _ Hx) as (Wx & Sx); rewrite Hf in Sx;
  pose proof Wx as (_ & Hfw & _); rewrite Hf in Hfw;
  pose proof (Forall_inv Hfw) as Hwf0; pose proof (Forall_inv Sx) as Hst;
  pose proof Wx as (_ & _ & _ & _ & Hdn0 & _); rewrite Hf in Hdn0; apply Forall_inv in Hdn0.

Lemma err_branch s e t x : bounded s -> e <> 0 -> ~ bounded (sett (set_err s e) t x).
Proof.
  intros (_ & E & _) He (_ & E' & _). unfold sett, set_err in E'. cbn [err] in E'. rewrite E in E'. cbn in E'. auto.
Qed.
Ltac kill_err HB HB' := exfalso; revert HB'; apply err_branch; [exact HB | discriminate].

Ltac sum1 := solve [intros; rewrite ?sumZ_cons, ?sumZ_nil; cbn [frame_strong frame_attempt]; lia].

Lemma micro_inv_FDecS110 s t rec s' obs x k o cnt tmp own :
  Inv' s -> gett s t = Some x -> frames x = FDecS110 o cnt tmp own :: k ->
  micro s t rec = Some (s', obs) -> Step s s'.
Proof.
  intros HI Hx Hf Hm. open_micro Hm Hx Hf. prep HI Hx Hf HA HN HT Wx Sx Hfw Hst.
  inversion Hm; subst; clear Hm.
  match goal with |- Step _ (sett ?S t (with_frames ?X (?F :: k))) =>
    change (F :: k) with ([F] ++ k); fr_only S X [F] end; auto using rc_eq_see_epoch.
  all: try sum1.
  all: try solve [repeat constructor; auto].
  all: destruct (tmp && negb (inclosure x)); [destruct (gdepth x)|]; reflexivity.
Qed.

Lemma micro_inv_FDecS111 s t rec s' obs x k o cnt r tmp own :
  Inv' s -> bounded s -> bounded s' -> gett s t = Some x -> frames x = FDecS111 o cnt r tmp own :: k ->
  micro s t rec = Some (s', obs) -> Step s s'.
Proof.
  intros HI HB HB' Hx Hf Hm. open_micro Hm Hx Hf. prep HI Hx Hf HA HN HT Wx Sx Hfw Hst.
  destruct (geto s o) as [ob|] eqn:Hg; inversion Hm; subst; clear Hm; [|kill_err HB HB'].
  match goal with |- Step _ (sett ?S t (with_frames ?X (?F :: k))) =>
    change (F :: k) with ([F] ++ k); fr_only S X [F] end; auto using rc_eq_refl.
  all: try sum1.
  all: try solve [repeat constructor; auto].
Qed.

Lemma dec_false_attempt o f : dec_false_on o f = true -> frame_attempt o f = 1.
Proof.
  destruct f; cbn; try discriminate; destruct own; try discriminate; intros H; rewrite H; auto.
Qed.

Lemma sumZ_In_le {A} (f : A -> Z) l a : (forall b, 0 <= f b) -> In a l -> f a <= sumZ f l.
Proof. intros Hp Hin. destruct (In_nth_error _ _ Hin) as (n & Hn). eapply sumZ_nth_le; eauto. Qed.

Lemma uniq_other s t x o f k : gett s t = Some x -> frames x = f :: k -> frame_attempt o f = 1 -> attempts s o <= 1 ->
  forall t' x0, t' <> t -> gett s t' = Some x0 -> Forall (fun f => dec_false_on o f = false) (frames x0).
Proof.
  intros Hx Hf H1 Hle t' x0 Hne Hx0. apply Forall_forall. intros f' Hin.
  destruct (dec_false_on o f') eqn:E; auto. apply dec_false_attempt in E.
  pose proof (attempts_ge_thr2 s t t' x x0 o (not_eq_sym Hne) Hx Hx0).
  pose proof (thr_att_In o x0 f' Hin). rewrite (thr_att_top _ _ _ _ Hf) in H.
  assert (0 <= sumZ (frame_attempt o) k) by (apply sumZ_nonneg; intros; apply frame_attempt_range). lia.
Qed.

Lemma uniq_k s t x o f k : gett s t = Some x -> frames x = f :: k -> frame_attempt o f = 1 -> attempts s o <= 1 ->
  Forall (fun f => dec_false_on o f = false) k.
Proof.
  intros Hx Hf H1 Hle. apply Forall_forall. intros f' Hin.
  destruct (dec_false_on o f') eqn:E; auto. apply dec_false_attempt in E.
  pose proof (attempts_ge_thr s t x o Hx). rewrite (thr_att_top _ _ _ _ Hf) in H.
  pose proof (sumZ_In_le (frame_attempt o) k f' (fun b => proj1 (frame_attempt_range o b)) Hin). lia.
Qed.

(* the top frame's credit is covered by the owners *)
Lemma owners_ge_top s t x o f k : all_wf s -> gett s t = Some x -> frames x = f :: k -> frame_strong o f <= owners s o.
Proof.
  intros Hw Hx Hf. pose proof (owners_ge_thr s t x o Hw Hx). rewrite (thr_strong_top _ _ _ _ Hf) in H.
  destruct (Hw _ _ Hx) as (Hv & Hfw & _). rewrite Hf in Hfw. inversion Hfw; subst.
  assert (0 <= sumZ (handle_strong o) (vars x)).
  { apply sumZ_nonneg. intros a Ha. apply handle_strong_nonneg. rewrite Forall_forall in Hv. auto. }
  assert (0 <= sumZ (frame_strong o) k).
  { apply sumZ_nonneg. intros a Ha. rewrite Forall_forall in H3. eapply frame_strong_nonneg; eauto. }
  lia.
Qed.
Lemma attempts_ge_top s t x o f k : gett s t = Some x -> frames x = f :: k -> frame_attempt o f <= attempts s o.
Proof.
  intros Hx Hf. pose proof (attempts_ge_thr s t x o Hx). rewrite (thr_att_top _ _ _ _ Hf) in H.
  assert (0 <= sumZ (frame_attempt o) k) by (apply sumZ_nonneg; intros; apply frame_attempt_range). lia.
Qed.
Lemma Inv'_all_wf s : Inv' s -> all_wf s.
Proof. intros (_ & _ & H) t x Hx. apply (H t x Hx). Qed.

Lemma dec_word cur r cnt : W cur -> 0 <= cnt <= strong cur -> upd cur (sub_strong (with_epoch cur r) cnt) (- cnt).
Proof.
  intros Hw Hc. pose proof (upd_with_epoch cur r Hw) as U1. pose proof U1 as (Hw1 & Hs1 & _).
  assert (U2 : upd (with_epoch cur r) (sub_strong (with_epoch cur r) cnt) (- cnt)) by (apply upd_sub_strong; auto; lia).
  apply (upd_trans _ _ _ _ _ U1 U2).
Qed.

Lemma micro_inv_FDecS112 s t rec s' obs x k o cnt r cur tmp own :
  Inv' s -> bounded s -> bounded s' -> gett s t = Some x -> frames x = FDecS112 o cnt r cur tmp own :: k ->
  micro s t rec = Some (s', obs) -> Step s s'.
Proof.
  intros HI HB HB' Hx Hf Hm. open_micro Hm Hx Hf. prep HI Hx Hf HA HN HT Wx Sx Hfw Hst.
  destruct (geto s o) as [ob|] eqn:Hg; [|inversion Hm; subst; kill_err HB HB'].
  destruct (Z.eqb_spec (word ob) cur) as [<-|Hne].
  2:{ inversion Hm; subst; clear Hm.
      match goal with |- Step _ (sett ?S t (with_frames ?X (?F :: k))) =>
        change (F :: k) with ([F] ++ k); fr_only S X [F] end; auto using rc_eq_refl.
      all: try sum1. all: try solve [repeat constructor; auto]. }
  destruct (bounded_word _ _ _ HB Hg) as (Hw & Hs & _).
  pose proof (HA _ _ Hg) as Hinv.
  pose proof (owners_ge_top s t x o _ _ (Inv'_all_wf _ HI) Hx Hf) as Hown. cbn [frame_strong] in Hown.
  pose proof (attempts_ge_top s t x o _ _ Hx Hf) as Hatt. cbn [frame_attempt] in Hatt. rewrite Nat.eqb_refl in *.
  destruct Hwf0 as (Hcnt & Hown1).
  assert (Hd : destructed (word ob) = false).
  { destruct (destructed (word ob)) eqn:E; auto. destruct (j_dead _ _ _ Hinv E). destruct own; lia. }
  destruct (live_facts _ _ _ Hinv Hd) as (J1 & J2 & J3 & Jd & Jf & Jo).
  pose proof (b2z_range (tok ob)) as Hb.
  assert (Htok : own = false -> tok ob = true).
  { intros ->. cbn in Hst. destruct Hst as (ob0 & Hg0 & Ht). rewrite Hg in Hg0. inversion Hg0; subst; auto. }
  assert (Hge : cnt <= strong (word ob)).
  { destruct own; [lia|]. rewrite (Htok eq_refl) in J1. cbn in J1. specialize (Hown1 eq_refl). lia. }
  pose proof (dec_word (word ob) r cnt Hw ltac:(lia)) as (Hw' & Hs' & Hd').
  set (w' := sub_strong (with_epoch (word ob) r) cnt) in *.
  assert (Hfa : own = false -> frame_attempt o (FDecS112 o cnt r (word ob) tmp own) = 1) by (intros ->; cbn; rewrite Nat.eqb_refl; auto).
  assert (Hu1 := fun E => uniq_other s t x o _ k Hx Hf (Hfa E) (proj2 J2)).
  assert (Hu2 := fun E => uniq_k s t x o _ k Hx Hf (Hfa E) (proj2 J2)).
  destruct tmp; destruct own; destruct (Z.eqb_spec (strong (word ob)) cnt) as [He|Hn]; inversion Hm; subst s' obs; clear Hm;
  match goal with
  | |- Step _ (sett ?S t (with_frames x (FUnpinTmp :: k))) => change (FUnpinTmp :: k) with ([FUnpinTmp] ++ k)
  | |- Step _ (sett ?S t (with_frames x k)) => change (with_frames x k) with (with_frames x ([] ++ k))
  end.
  all: match goal with
  | |- Step _ (sett ?S ?T (with_frames ?X (?N ++ ?K))) =>
      match type of Hf with
      | context [FDecS112 _ _ _ _ _ true] => eapply (step_obj s S T X X N K _ o ob _ 0 HI Hx Hf)
      | context [FDecS112 _ _ _ _ _ false] => eapply (step_obj s S T X X N K _ o ob _ o HI Hx Hf)
      end
  end; try exact Hg; try (cbn [threads defer set_pending]; apply threads_seto); sides Wx; try (apply Hu1; reflexivity); try (apply Hu2; reflexivity).
  all: on_others ltac:(intros o0 Ho0 _; norm; rewrite (thr_strong_top _ _ _ _ Hf), (thr_att_top _ _ _ _ Hf); credits;
       destruct (Nat.eqb_spec o o0); [congruence|]; cbn [pkind_eqb andb]; lia).
  all: apply obj_inv_live; cbn [word tok dropped freed]; auto; try congruence;
    rewrite ?Hs'; norm; rewrite ?(thr_strong_top _ _ _ _ Hf), ?(thr_att_top _ _ _ _ Hf); credits;
    rewrite ?Nat.eqb_refl; cbn [pkind_eqb andb]; try rewrite (Htok eq_refl) in *;
    rewrite <- ?b2z_true in *; unfold b2z in *; cbn [Z.b2z] in *; try lia.
Qed.

(* ---- try_destruct *)
Ltac fr1 lem :=
  match goal with |- Step _ (sett ?S ?T (with_frames ?X (?F :: ?K))) =>
    change (F :: K) with ([F] ++ K); fr_only S X [F] end; auto using lem;
  try sum1; try solve [repeat constructor; auto].

(* an attempt in progress on a live object whose count is positive holds the token *)
Lemma attempt_tok s t x o f k ob : Inv' s -> gett s t = Some x -> frames x = f :: k -> frame_attempt o f = 1 ->
  geto s o = Some ob -> destructed (word ob) = false /\ (0 < strong (word ob) -> tok ob = true) /\ attempts s o = 1.
Proof.
  intros HI Hx Hf H1 Hg. pose proof HI as (HA & _). pose proof (HA _ _ Hg) as Hinv.
  pose proof (attempts_ge_top s t x o _ _ Hx Hf) as Hatt. rewrite H1 in Hatt.
  assert (Hd : destructed (word ob) = false).
  { destruct (destructed (word ob)) eqn:E; auto. destruct (j_dead _ _ _ Hinv E). lia. }
  destruct (live_facts _ _ _ Hinv Hd) as (J1 & J2 & J3 & Jd & Jf & Jo).
  split; auto. assert (attempts s o = 1) by lia. split; auto. intros Hp. destruct (proj1 J3 H); auto. lia.
Qed.

Lemma micro_inv_FTD113 s t rec s' obs x k o :
  Inv' s -> bounded s -> bounded s' -> gett s t = Some x -> frames x = FTD113 o :: k ->
  micro s t rec = Some (s', obs) -> Step s s'.
Proof.
  intros HI HB HB' Hx Hf Hm. open_micro Hm Hx Hf. prep HI Hx Hf HA HN HT Wx Sx Hfw Hst.
  destruct (geto s o) as [ob|] eqn:Hg; [|inversion Hm; subst; kill_err HB HB'].
  destruct (bounded_word _ _ _ HB Hg) as (Hw & Hs & _). pose proof (strong_range _ Hw).
  assert (Hfa : frame_attempt o (FTD113 o) = 1) by (cbn; rewrite Nat.eqb_refl; auto).
  destruct (attempt_tok s t x o _ k ob HI Hx Hf Hfa Hg) as (Hd & Htok & Ha).
  destruct (Z.ltb_spec 0 (strong (word ob))); inversion Hm; subst; clear Hm.
  - fr1 rc_eq_refl. repeat constructor. exists ob. auto.
  - fr1 rc_eq_refl. repeat constructor. cbn. lia.
Qed.

Lemma micro_inv_FTD114 s t rec s' obs x k o old :
  Inv' s -> bounded s -> bounded s' -> gett s t = Some x -> frames x = FTD114 o old :: k ->
  micro s t rec = Some (s', obs) -> Step s s'.
Proof.
  intros HI HB HB' Hx Hf Hm. open_micro Hm Hx Hf. prep HI Hx Hf HA HN HT Wx Sx Hfw Hst.
  destruct (geto s o) as [ob|] eqn:Hg; [|inversion Hm; subst; kill_err HB HB'].
  destruct (bounded_word _ _ _ HB Hg) as (Hw & Hs & _). pose proof (strong_range _ Hw).
  assert (Hfa : frame_attempt o (FTD114 o old) = 1) by (cbn; rewrite Nat.eqb_refl; auto).
  destruct (attempt_tok s t x o _ k ob HI Hx Hf Hfa Hg) as (Hd & Htok & Ha).
  destruct (Z.eqb_spec (word ob) old) as [<-|Hne].
  - inversion Hm; subst; clear Hm. cbn in Hwf0.
    destruct (with_destructed_true _ Hw) as (Hw' & Hd' & Hs').
    destruct (live_facts _ _ _ (HA _ _ Hg) Hd) as (J1 & J2 & J3 & Jd & Jf & Jo).
    pose proof (b2z_range (tok ob)).
    change (FDispEnter o 0 :: k) with ([FDispEnter o 0] ++ k).
    eapply (step_obj s _ t x x _ k _ o ob _ 0 HI Hx Hf (threads_seto _ _ _) Hg); sides Wx.
    all: on_st ltac:(repeat constructor; intros _; eexists; split; [eapply geto_seto_eq; eauto|exact Hd']).
    all: on_others ltac:(intros o0 Ho0 _; norm; rewrite (thr_strong_top _ _ _ _ Hf), (thr_att_top _ _ _ _ Hf); credits;
       destruct (Nat.eqb_spec o o0); [congruence|]; cbn [andb]; lia).
    apply obj_inv_dead; cbn [word dropped freed with_word]; auto; try congruence;
      norm; rewrite ?(thr_strong_top _ _ _ _ Hf), ?(thr_att_top _ _ _ _ Hf); credits; rewrite ?Nat.eqb_refl; cbn [andb Z.ltb Z.compare]; lia.
  - destruct (Z.ltb_spec 0 (strong (word ob))); inversion Hm; subst; clear Hm.
    + fr1 rc_eq_refl. repeat constructor. exists ob. auto.
    + fr1 rc_eq_refl. repeat constructor. cbn. lia.
Qed.

(* ---- dispose_general_node *)
(* a step that leaves every object as it is (variables, cells-free, pending list may change) *)
Lemma step_same s s1 t x x1 new k f :
  Inv' s -> gett s t = Some x -> frames x = f :: k -> threads s1 = threads s ->
  (forall o, geto s1 o = geto s o) ->
  thr_wf (with_frames x1 (new ++ k)) -> Forall (frame_st s) new ->
  (forall o, o <> O -> owners (sett s1 t (with_frames x1 (new ++ k))) o = owners s o /\
                       attempts (sett s1 t (with_frames x1 (new ++ k))) o = attempts s o) ->
  Step s (sett s1 t (with_frames x1 (new ++ k))).
Proof.
  intros HI Hx Hfr Hth Hgeto Hwf Hst Hoth.
  pose proof HI as (HA & HB & HC). destruct (HC _ _ Hx) as (Wx & Sx).
  apply (step_intro s t x s1 _ 0); auto.
  - apply obj_mono_refl_geto; auto.
  - apply Hex0; auto.
  - cbn [frames with_frames]. rewrite Hfr in Sx. inversion Sx; subst. apply Forall_app. split.
    + eapply Forall_impl; [|exact Hst]. intros; eapply frame_st_ext; eauto.
    + eapply Forall_impl; [|eassumption]. intros; eapply frame_st_ext; eauto.
  - intros o Ho. rewrite Hgeto. destruct (Hoth o Ho) as (Eo & Ea).
    destruct (geto s o) as [ob0|] eqn:Hg.
    + eapply obj_inv_same; eauto.
    + rewrite Eo, Ea. auto.
Qed.

Ltac others Hf :=
  norm; rewrite ?(thr_strong_top _ _ _ _ Hf), ?(thr_att_top _ _ _ _ Hf); credits.

Lemma micro_inv_FDispEnter s t rec s' obs x k o depth :
  Inv' s -> gett s t = Some x -> frames x = FDispEnter o depth :: k ->
  micro s t rec = Some (s', obs) -> Step s s'.
Proof.
  intros HI Hx Hf Hm. open_micro Hm Hx Hf. prep HI Hx Hf HA HN HT Wx Sx Hfw Hst.
  destruct (Z.geb_spec depth DEPTH_CAP) as [Hge|Hlt]; inversion Hm; subst; clear Hm.
  - change (with_frames x k) with (with_frames x ([] ++ k)).
    eapply (step_same s _ t x x [] k _ HI Hx Hf); sides Wx.
    intros o0 Ho0. others Hf. unfold DEPTH_CAP in Hge.
    destruct (Z.ltb_spec 0 depth); [|lia]. rewrite andb_true_r. cbn [pkind_eqb andb]. lia.
  - fr1 rc_eq_refl.
Qed.

Lemma micro_inv_FDisp115 s t rec s' obs x k o depth :
  Inv' s -> bounded s -> bounded s' -> gett s t = Some x -> frames x = FDisp115 o depth :: k ->
  micro s t rec = Some (s', obs) -> Step s s'.
Proof.
  intros HI HB HB' Hx Hf Hm. open_micro Hm Hx Hf. prep HI Hx Hf HA HN HT Wx Sx Hfw Hst.
  destruct (geto s o) as [ob|] eqn:Hg; inversion Hm; subst; clear Hm; [|kill_err HB HB'].
  fr1 rc_eq_refl.
Qed.

Lemma micro_inv_FDisp116 s t rec s' obs x k o depth w :
  Inv' s -> gett s t = Some x -> frames x = FDisp116 o depth w :: k ->
  micro s t rec = Some (s', obs) -> Step s s'.
Proof.
  intros HI Hx Hf Hm. open_micro Hm Hx Hf. prep HI Hx Hf HA HN HT Wx Sx Hfw Hst.
  cbn in Hwf0.
  destruct (dispose_here _ _ _) eqn:Hdh.
  - destruct (Z.ltb_spec 0 depth); inversion Hm; subst; clear Hm.
    + fr1 rc_eq_see_epoch.
      all: try solve [intros; rewrite sumZ_cons, sumZ_nil; cbn [frame_attempt]; lia].
      all: try solve [repeat constructor; cbn; lia].
    + assert (depth = 0) by lia. subst depth. fr1 rc_eq_see_epoch.
      all: try solve [intros; rewrite sumZ_cons, sumZ_nil; cbn [frame_attempt]; rewrite andb_false_r; lia].
      all: try solve [repeat constructor; apply Hst; auto].
  - inversion Hm; subst; clear Hm.
    assert (Hd : 0 < depth).
    { unfold dispose_here in Hdh. apply orb_false_elim in Hdh as (Hdh & _). cbn [ROOT_ALWAYS andb] in Hdh.
      apply Z.eqb_neq in Hdh. lia. }
    change (with_frames x k) with (with_frames x ([] ++ k)).
    eapply (step_same s _ t x x [] k _ HI Hx Hf); sides Wx.
    + apply (rc_eq_see_epoch s _).
    + intros; cbn [geto defer set_pending objs]. apply (geto_rc_eq _ _ _ (rc_eq_see_epoch _ _)).
    + intros o0 Ho0. others Hf.
      destruct (Z.ltb_spec 0 depth); [|lia]. rewrite andb_true_r. cbn [pkind_eqb andb]. lia.
Qed.

Lemma micro_inv_FDisp130 s t rec s' obs x k o depth w curr :
  Inv' s -> bounded s -> bounded s' -> gett s t = Some x -> frames x = FDisp130 o depth w curr :: k ->
  micro s t rec = Some (s', obs) -> Step s s'.
Proof.
  intros HI HB HB' Hx Hf Hm. open_micro Hm Hx Hf. prep HI Hx Hf HA HN HT Wx Sx Hfw Hst.
  cbn in Hwf0.
  destruct (geto s o) as [ob|] eqn:Hg; [|inversion Hm; subst; kill_err HB HB'].
  destruct (bounded_word _ _ _ HB Hg) as (Hw & Hs & _). pose proof (strong_range _ Hw).
  assert (Hfa : frame_attempt o (FDisp130 o depth w curr) = 1).
  { cbn. rewrite Nat.eqb_refl. destruct (Z.ltb_spec 0 depth); auto; lia. }
  destruct (attempt_tok s t x o _ k ob HI Hx Hf Hfa Hg) as (Hd & Htok & Ha).
  destruct ((strong w =? 0) && (word ob =? w)) eqn:Hc; inversion Hm; subst; clear Hm.
  - apply andb_prop in Hc as (Hz & He). apply Z.eqb_eq in Hz, He. subst w.
    destruct (with_destructed_true _ Hw) as (Hw' & Hd' & Hs').
    destruct (live_facts _ _ _ (HA _ _ Hg) Hd) as (J1 & J2 & J3 & Jd & Jf & Jo).
    pose proof (b2z_range (tok ob)).
    match goal with |- Step _ (sett _ _ (with_frames _ (?F :: k))) => change (F :: k) with ([F] ++ k) end.
    eapply (step_obj s _ t x x _ k _ o ob _ 0 HI Hx Hf (threads_seto _ _ _) Hg); sides Wx.
    all: on_st ltac:(repeat constructor; eexists; split; [eapply geto_seto_eq; eauto|exact Hd']).
    all: on_others ltac:(intros o0 Ho0 _; others Hf;
       destruct (Nat.eqb_spec o o0); [congruence|]; cbn [andb]; lia).
    apply obj_inv_dead; cbn [word dropped freed with_word]; auto; try congruence;
      others Hf; rewrite ?Nat.eqb_refl; destruct (Z.ltb_spec 0 depth); cbn [andb]; lia.
  - change (with_frames x k) with (with_frames x ([] ++ k)).
    eapply (step_same s _ t x x [] k _ HI Hx Hf); sides Wx.
    intros o0 Ho0. others Hf.
    destruct (Z.ltb_spec 0 depth); [|lia]. rewrite andb_true_r. cbn [pkind_eqb andb]. lia.
Qed.

Lemma sumZ_is_o_nulls o {A} (l : list A) : o <> O -> sumZ (is_o o) (map (fun _ => null_link) l) = 0.
Proof.
  intros Ho. apply sumZ_zero. intros a Ha. apply in_map_iff in Ha as (? & <- & _).
  apply is_o_neq. cbn. auto.
Qed.

Lemma micro_inv_FDispDo s t rec s' obs x k o depth w curr :
  Inv' s -> bounded s -> bounded s' -> gett s t = Some x -> frames x = FDispDo o depth w curr :: k ->
  micro s t rec = Some (s', obs) -> Step s s'.
Proof.
  intros HI HB HB' Hx Hf Hm. open_micro Hm Hx Hf. prep HI Hx Hf HA HN HT Wx Sx Hfw Hst.
  cbn in Hwf0.
  destruct (geto s o) as [ob|] eqn:Hg; inversion Hm; subst; clear Hm; [|kill_err HB HB'].
  assert (Ho : o <> O) by (intros ->; discriminate).
  destruct Hst as (ob0 & Hg0 & Hd). rewrite Hg in Hg0. inversion Hg0; subst ob0. clear Hg0.
  destruct (j_dead _ _ _ (HA _ _ Hg) Hd) as (Ho0 & Ha0).
  match goal with |- Step _ (sett _ _ (with_frames _ (?F :: k))) => change (F :: k) with ([F] ++ k) end.
  eapply (step_obj s _ t x x _ k _ o ob _ 0 HI Hx Hf (threads_seto _ _ _) Hg); sides Wx.
  all: on_st ltac:(repeat constructor; eexists; split; [eapply geto_seto_eq; eauto|reflexivity]).
  all: on_others ltac:(intros o0 Ho0' Hn0; others Hf; rewrite (sumZ_is_o_nulls o0) by auto; lia).
  apply obj_inv_dead; cbn [word dropped freed]; auto;
    others Hf; rewrite ?(sumZ_is_o_nulls o) by auto; lia.
Qed.

Lemma micro_inv_FDisp117 s t rec s' obs x k o depth ne curr outs :
  Inv' s -> bounded s -> bounded s' -> gett s t = Some x -> frames x = FDisp117 o depth ne curr outs :: k ->
  micro s t rec = Some (s', obs) -> Step s s'.
Proof.
  intros HI HB HB' Hx Hf Hm. open_micro Hm Hx Hf. prep HI Hx Hf HA HN HT Wx Sx Hfw Hst.
  cbn in Hwf0.
  destruct (geto s o) as [ob|] eqn:Hg; [|inversion Hm; subst; kill_err HB HB'].
  destruct (weaked (word ob)); inversion Hm; subst; clear Hm.
  - match goal with |- Step _ (sett ?S ?T (with_frames ?X (?F :: ?F2 :: ?K))) =>
      change (F :: F2 :: K) with ([F; F2] ++ K); fr_only S X [F; F2] end; auto using rc_eq_refl.
    all: try solve [intros; rewrite !sumZ_cons, sumZ_nil; cbn [frame_strong frame_attempt]; lia].
    all: try solve [repeat constructor; cbn; auto].
  - destruct Hst as (ob0 & Hg0 & Hdr). rewrite Hg in Hg0. inversion Hg0; subst ob0. clear Hg0.
    pose proof (j_dropped _ _ _ (HA _ _ Hg) Hdr) as Hd.
    destruct (j_dead _ _ _ (HA _ _ Hg) Hd) as (Ho0 & Ha0).
    match goal with |- Step _ (sett _ _ (with_frames _ (?F :: k))) => change (F :: k) with ([F] ++ k) end.
    eapply (step_obj s _ t x x _ k _ o ob _ 0 HI Hx Hf (threads_seto _ _ _) Hg); sides Wx.
    all: on_others ltac:(intros o0 Ho0' Hn0; others Hf; lia).
    apply obj_inv_dead; cbn [word dropped freed]; auto; others Hf; lia.
Qed.

Lemma micro_inv_FKids s t rec s' obs x k depth ne curr outs :
  Inv' s -> gett s t = Some x -> frames x = FKids depth ne curr outs :: k ->
  micro s t rec = Some (s', obs) -> Step s s'.
Proof.
  intros HI Hx Hf Hm. open_micro Hm Hx Hf. prep HI Hx Hf HA HN HT Wx Sx Hfw Hst.
  cbn in Hwf0.
  destruct outs as [|c r]; [|destruct (fst c) eqn:Hc]; inversion Hm; subst; clear Hm.
  - fr_only s x (@nil frame); auto using rc_eq_refl.
  - match goal with |- Step _ (sett _ _ (with_frames _ (?F :: k))) => change (F :: k) with ([F] ++ k) end.
    eapply (step_same s _ t x x _ k _ HI Hx Hf); sides Wx.
    intros o0 Ho0. others Hf. rewrite sumZ_cons. rewrite (is_o_neq o0 c) by lia. lia.
  - fr1 rc_eq_see_epoch.
    all: try solve [intros; rewrite !sumZ_cons, sumZ_nil; cbn [frame_strong frame_attempt]; rewrite ?sumZ_cons; lia].
Qed.

Lemma micro_inv_FKid118 s t rec s' obs x k c depth ne curr outs :
  Inv' s -> bounded s -> bounded s' -> gett s t = Some x -> frames x = FKid118 c depth ne curr outs :: k ->
  micro s t rec = Some (s', obs) -> Step s s'.
Proof.
  intros HI HB HB' Hx Hf Hm. open_micro Hm Hx Hf. prep HI Hx Hf HA HN HT Wx Sx Hfw Hst.
  cbn in Hwf0.
  destruct (geto s (fst c)) as [ob|] eqn:Hg; inversion Hm; subst; clear Hm; [|kill_err HB HB'].
  fr1 rc_eq_refl. repeat constructor; cbn; auto. eexists; reflexivity.
Qed.

Lemma kid_word wc e : W wc -> 1 <= strong wc -> upd wc (with_epoch (sub_strong wc 1) e) (- 1).
Proof.
  intros Hw Hc. pose proof (upd_sub_strong wc 1 Hw ltac:(lia)) as U1. pose proof U1 as (Hw1 & _).
  pose proof (upd_with_epoch _ e Hw1) as U2. pose proof (upd_trans _ _ _ _ _ U1 U2) as U. replace (-1 + 0) with (-1) in U by lia. exact U.
Qed.

Ltac fin_live Hf Htok :=
  apply obj_inv_live; cbn [word tok dropped freed with_word with_tok]; auto; try congruence;
  others Hf; rewrite ?Nat.eqb_refl; cbn [pkind_eqb andb];
  rewrite <- ?b2z_true in *; unfold b2z in *; cbn [Z.b2z] in *; try lia.

Lemma micro_inv_FKid119 s t rec s' obs x k c wc nxt depth ne curr outs :
  Inv' s -> bounded s -> bounded s' -> gett s t = Some x -> frames x = FKid119 c wc nxt depth ne curr outs :: k ->
  micro s t rec = Some (s', obs) -> Step s s'.
Proof.
  intros HI HB HB' Hx Hf Hm. open_micro Hm Hx Hf. prep HI Hx Hf HA HN HT Wx Sx Hfw Hst.
  cbn in Hwf0. destruct Hwf0 as (Hdep & (e & Hnxt) & _).
  destruct (geto s (fst c)) as [ob|] eqn:Hg; [|inversion Hm; subst; kill_err HB HB'].
  destruct (Z.eqb_spec (word ob) wc) as [<-|Hne].
  2:{ inversion Hm; subst; clear Hm. fr1 rc_eq_refl. }
  destruct (bounded_word _ _ _ HB Hg) as (Hw & Hs & _).
  pose proof (HA _ _ Hg) as Hinv.
  pose proof (owners_ge_top s t x (fst c) _ _ (Inv'_all_wf _ HI) Hx Hf) as Hown. cbn [frame_strong] in Hown.
  rewrite is_o_eq in Hown. pose proof (sumZ_is_o_nonneg (fst c) outs).
  assert (Hd : destructed (word ob) = false).
  { destruct (destructed (word ob)) eqn:E; auto. destruct (j_dead _ _ _ Hinv E). lia. }
  destruct (live_facts _ _ _ Hinv Hd) as (J1 & J2 & J3 & Jd & Jf & Jo).
  pose proof (b2z_range (tok ob)) as Hb.
  pose proof (kid_word (word ob) e Hw ltac:(lia)) as (Hw' & Hs' & Hd'). rewrite <- Hnxt in *.
  destruct (Z.eqb_spec (strong nxt) 0) as [Hz|Hnz]; inversion Hm; subst s' obs; clear Hm.
  - match goal with |- Step _ (sett ?S ?T (with_frames ?X (?F :: ?F2 :: ?K))) => change (F :: F2 :: K) with ([F; F2] ++ K) end.
    eapply (step_obj s _ t x x _ k _ (fst c) ob _ 0 HI Hx Hf (threads_seto _ _ _) Hg); sides Wx.
    all: on_wf ltac:(repeat constructor; cbn; lia).
    all: on_others ltac:(intros o0 Ho0 _; others Hf; rewrite (is_o_neq o0 c) by auto;
       destruct (Nat.eqb_spec (fst c) o0); [congruence|]; cbn [andb]; lia).
    fin_live Hf I; rewrite ?is_o_eq; destruct (Z.ltb_spec 0 (depth + 1)); try lia.
  - match goal with |- Step _ (sett _ _ (with_frames _ (?F :: k))) => change (F :: k) with ([F] ++ k) end.
    eapply (step_obj s _ t x x _ k _ (fst c) ob _ 0 HI Hx Hf (threads_seto _ _ _) Hg); sides Wx.
    all: on_others ltac:(intros o0 Ho0 _; others Hf; rewrite (is_o_neq o0 c) by auto; lia).
    fin_live Hf I; rewrite ?is_o_eq; try lia.
Qed.

(* ---- weak side, as seen by the strong side *)
Lemma micro_inv_FDecW107 s t rec s' obs x k o tmp own :
  Inv' s -> bounded s -> bounded s' -> gett s t = Some x -> frames x = FDecW107 o tmp own :: k ->
  micro s t rec = Some (s', obs) -> Step s s'.
Proof.
  intros HI HB HB' Hx Hf Hm. open_micro Hm Hx Hf. prep HI Hx Hf HA HN HT Wx Sx Hfw Hst.
  destruct (geto s o) as [ob|] eqn:Hg; [|inversion Hm; subst; kill_err HB HB'].
  destruct (bounded_word _ _ _ HB Hg) as (Hw & Hs & Hwk).
  set (ob' := {| word := fsub (word ob) WEAK_COUNT; dropped := dropped ob; freed := freed ob; tok := tok ob;
                 wtok := if own then wtok ob else false; links := links ob |}) in *.
  assert (Hg' : geto s' o = Some ob').
  { destruct (weak (word ob) =? 1); inversion Hm; subst s'; cbn [geto sett objs defer set_pending];
      change (geto (seto s o ob') o = Some ob'); eapply geto_seto_eq; eauto. }
  destruct (bounded_word _ _ _ HB' Hg') as (_ & _ & Hwk'). cbn [word ob'] in Hwk'.
  destruct (upd_fsub_weak _ Hw Hwk') as (Hw' & Hs' & Hd'). clear Hg'. subst ob'.
  destruct (weak (word ob) =? 1); inversion Hm; subst s' obs; clear Hm.
  all: change (with_frames x k) with (with_frames x ([] ++ k)).
  all: eapply (step_obj s _ t x x _ k _ o ob _ 0 HI Hx Hf); try exact Hg;
       try (cbn [threads defer set_pending]; apply threads_seto); sides Wx.
  all: on_others ltac:(intros o0 Ho0 _; others Hf; cbn [pkind_eqb andb]; lia).
  all: eapply (obj_inv_view s _ o ob _ (HA _ _ Hg)); auto; try (cbn [word]; lia);
       others Hf; cbn [pkind_eqb andb]; lia.
Qed.

Lemma micro_inv_FTDe102 s t rec s' obs x k o :
  Inv' s -> tde_ok s -> bounded s -> bounded s' -> gett s t = Some x -> frames x = FTDe102 o :: k ->
  micro s t rec = Some (s', obs) -> Step s s'.
Proof.
  intros HI HTD HB HB' Hx Hf Hm. open_micro Hm Hx Hf. prep HI Hx Hf HA HN HT Wx Sx Hfw Hst.
  destruct (geto s o) as [ob|] eqn:Hg; [|inversion Hm; subst; kill_err HB HB'].
  destruct (bounded_word _ _ _ HB Hg) as (Hw & Hs & Hwk). pose proof (weak_range _ Hw).
  destruct (Z.ltb_spec 0 (weak (word ob))); inversion Hm; subst s' obs; clear Hm.
  - fr1 rc_eq_refl.
  - assert (Hdr : dropped ob = true).
    { destruct (freed ob) eqn:Efr; [apply (j_freed _ _ _ (HA _ _ Hg) Efr)|]. apply (HTD _ _ Hg); auto. lia. }
    pose proof (j_dropped _ _ _ (HA _ _ Hg) Hdr) as Hd.
    destruct (j_dead _ _ _ (HA _ _ Hg) Hd) as (Ho0 & Ha0).
    change (with_frames x k) with (with_frames x ([] ++ k)).
    eapply (step_obj s _ t x x _ k _ o ob _ 0 HI Hx Hf (threads_seto _ _ _) Hg); sides Wx.
    all: on_others ltac:(intros o0 Ho0' Hn0; others Hf; lia).
    apply obj_inv_dead; cbn [word dropped freed]; auto; others Hf; lia.
Qed.

(* an update of object i that the strong side cannot see *)
Lemma step_view s t x k f i ob ob' new :
  Inv' s -> gett s t = Some x -> frames x = f :: k -> geto s i = Some ob ->
  strong (word ob') = strong (word ob) -> destructed (word ob') = destructed (word ob) ->
  tok ob' = tok ob -> dropped ob' = dropped ob -> freed ob' = freed ob -> links ob' = links ob ->
  thr_wf (with_frames x (new ++ k)) -> Forall (frame_st s) new ->
  (forall o, sumZ (frame_strong o) new = frame_strong o f) ->
  (forall o, sumZ (frame_attempt o) new = frame_attempt o f) ->
  Step s (sett (seto s i ob') t (with_frames x (new ++ k))).
Proof.
  intros HI Hx Hf Hg Es Ed Et Edr Efr El Hwf Hst Hcs Hca.
  pose proof HI as (HA & HN & HT). destruct (HT _ _ Hx) as (Wx & Sx). rewrite Hf in Sx.
  assert (Eo : forall o, owners (sett (seto s i ob') t (with_frames x (new ++ k))) o = owners s o).
  { intros o. others Hf. rewrite El, Hcs. lia. }
  assert (Ea : forall o, attempts (sett (seto s i ob') t (with_frames x (new ++ k))) o = attempts s o).
  { intros o. others Hf. rewrite Hca. lia. }
  eapply (step_obj s _ t x x _ k _ i ob _ 0 HI Hx Hf (threads_seto _ _ _) Hg); auto; try congruence.
  - eapply Forall_impl; [|exact Hst]. intros a Ha. apply (frame_st_mono s _ 0); auto.
    + eapply (obj_mono_seto s _ i ob ob' 0); eauto; congruence.
    + apply (dec_false_on_0 s); auto.
  - apply Hex0; auto.
  - eapply Hexk0; eauto.
  - eapply obj_inv_view; eauto.
Qed.

Lemma micro_inv_FIncW103 s t rec s' obs x k o cnt :
  Inv' s -> bounded s -> bounded s' -> gett s t = Some x -> frames x = FIncW103 o cnt :: k ->
  micro s t rec = Some (s', obs) -> Step s s'.
Proof.
  intros HI HB HB' Hx Hf Hm. open_micro Hm Hx Hf. prep HI Hx Hf HA HN HT Wx Sx Hfw Hst.
  destruct (geto s o) as [ob|] eqn:Hg; [|inversion Hm; subst; kill_err HB HB'].
  destruct (weaked (word ob)) eqn:Hwkd; inversion Hm; subst s' obs; clear Hm; fr1 rc_eq_refl.
  repeat constructor; auto; apply Hwf0.
Qed.

Ltac view_step Hf Hg :=
  match goal with |- Step _ (sett (seto ?s ?i ?ob') ?t (with_frames ?x (?new ++ ?k))) =>
    eapply (step_view s t x k _ i _ ob' new); try eassumption; try reflexivity;
    try (cbn [word with_word]; lia); try (cbn [word with_word]; congruence); wfpush; try sum1; try solve [repeat constructor; auto]
  end.

Lemma micro_inv_FIncW104 s t rec s' obs x k o cnt old :
  Inv' s -> bounded s -> bounded s' -> gett s t = Some x -> frames x = FIncW104 o cnt old :: k ->
  micro s t rec = Some (s', obs) -> Step s s'.
Proof.
  intros HI HB HB' Hx Hf Hm. open_micro Hm Hx Hf. prep HI Hx Hf HA HN HT Wx Sx Hfw Hst.
  destruct (geto s o) as [ob|] eqn:Hg; [|inversion Hm; subst; kill_err HB HB'].
  destruct (bounded_word _ _ _ HB Hg) as (Hw & Hs & Hwk). cbn [frame_wf] in Hwf0. destruct Hwf0 as (Hwf0 & Hwkd0).
  destruct (Z.eqb_spec (word ob) old) as [<-|Hne].
  - inversion Hm; subst s' obs; clear Hm.
    pose proof (upd_with_weaked (word ob) true Hw) as U1. pose proof U1 as (Hw1 & _).
    assert (U2 : upd (with_weaked (word ob) true) (add_weak (with_weaked (word ob) true) cnt) 0).
    { apply upd_add_weak; auto; try lia. rewrite weak_with_weaked; auto. }
    destruct (upd_trans _ _ _ _ _ U1 U2) as (Hw' & Hs' & Hd').
    change (with_frames x k) with (with_frames x ([] ++ k)). view_step Hf Hg.
  - destruct (weaked (word ob)) eqn:Hwkd; inversion Hm; subst s' obs; clear Hm; fr1 rc_eq_refl.
    all: repeat constructor; auto; cbn [frame_wf]; auto; lia.
Qed.

Lemma micro_inv_FIncW105 s t rec s' obs x k o cnt :
  Inv' s -> bounded s -> bounded s' -> gett s t = Some x -> frames x = FIncW105 o cnt :: k ->
  micro s t rec = Some (s', obs) -> Step s s'.
Proof.
  intros HI HB HB' Hx Hf Hm. open_micro Hm Hx Hf. prep HI Hx Hf HA HN HT Wx Sx Hfw Hst.
  destruct (geto s o) as [ob|] eqn:Hg; [|inversion Hm; subst; kill_err HB HB'].
  destruct (bounded_word _ _ _ HB Hg) as (Hw & Hs & Hwk). cbn [frame_wf] in Hwf0.
  destruct (upd_fadd_weak (word ob) cnt Hw ltac:(lia) Hwk) as (Hw' & Hs' & Hd').
  destruct (weak (word ob) =? 0); inversion Hm; subst s' obs; clear Hm.
  - match goal with |- Step _ (sett _ _ (with_frames _ (?F :: k))) => change (F :: k) with ([F] ++ k) end.
    view_step Hf Hg.
  - change (with_frames x k) with (with_frames x ([] ++ k)). view_step Hf Hg.
Qed.

Lemma micro_inv_FIncW106 s t rec s' obs x k o :
  Inv' s -> bounded s -> bounded s' -> gett s t = Some x -> frames x = FIncW106 o :: k ->
  micro s t rec = Some (s', obs) -> Step s s'.
Proof.
  intros HI HB HB' Hx Hf Hm. open_micro Hm Hx Hf. prep HI Hx Hf HA HN HT Wx Sx Hfw Hst.
  destruct (geto s o) as [ob|] eqn:Hg; [|inversion Hm; subst; kill_err HB HB'].
  destruct (bounded_word _ _ _ HB Hg) as (Hw & Hs & Hwk).
  destruct (upd_fadd_weak1 (word ob) Hw Hwk) as (Hw' & Hs' & Hd').
  inversion Hm; subst s' obs; clear Hm.
  change (with_frames x k) with (with_frames x ([] ++ k)). view_step Hf Hg.
Qed.

(* ---- is_not_destructed *)
Lemma err_branch' s e t x : e <> 0 -> ~ bounded (sett (set_err s e) t x).
Proof.
  intros He (_ & E' & _). unfold sett, set_err in E'. cbn [err] in E'. destruct (Z.eqb_spec (err s) 0); auto.
Qed.
Ltac kill_err' HB' := exfalso; revert HB'; apply err_branch'; discriminate.

Lemma nostrong_strong o h : nostrong h -> handle_strong o h = 0 /\ handle_wf h.
Proof. destruct h; cbn; tauto. Qed.
Lemma nostrong_weak o h : nostrong h -> handle_weak o h = 0.
Proof. destruct h; cbn; tauto. Qed.

Lemma micro_inv_FIsND108 s t rec s' obs x k o c :
  Inv' s -> bounded s' -> gett s t = Some x -> frames x = FIsND108 o c :: k ->
  micro s t rec = Some (s', obs) -> Step s s'.
Proof.
  intros HI HB' Hx Hf Hm. open_micro Hm Hx Hf. prep HI Hx Hf HA HN HT Wx Sx Hfw Hst.
  destruct Hwf0 as (Hcd & Hn1 & Hn2).
  destruct (geto _ o) as [ob|] eqn:Hg; [|inversion Hm; subst; kill_err' HB'].
  destruct (destructed (word ob)); inversion Hm; subst s' obs; clear Hm; fr1 rc_eq_see_epoch.
  all: try solve [intros o0; rewrite sumZ_cons, sumZ_nil; cbn [frame_strong]; rewrite (proj1 (nostrong_strong o0 _ Hn2)); lia].
  all: try solve [repeat constructor; cbn; auto; apply (nostrong_strong O _ Hn2)].
Qed.

Lemma micro_inv_FIsND109 s t rec s' obs x k o old r c :
  Inv' s -> bounded s -> bounded s' -> gett s t = Some x -> frames x = FIsND109 o old r c :: k ->
  micro s t rec = Some (s', obs) -> Step s s'.
Proof.
  intros HI HB HB' Hx Hf Hm. open_micro Hm Hx Hf. prep HI Hx Hf HA HN HT Wx Sx Hfw Hst.
  destruct Hwf0 as (Hcd & Hn1 & Hn2).
  assert (Hc1 : forall o0, handle_strong o0 (cok c) = 0) by (intros; apply (nostrong_strong o0 _ Hn1)).
  assert (Hc2 : forall o0, handle_strong o0 (cfail c) = 0) by (intros; apply (nostrong_strong o0 _ Hn2)).
  destruct (geto s o) as [ob|] eqn:Hg; [|inversion Hm; subst; kill_err HB HB'].
  destruct (bounded_word _ _ _ HB Hg) as (Hw & Hs & Hwk). unfold LIM in Hs.
  destruct (Z.eqb_spec (word ob) old) as [<-|Hne].
  2:{ destruct (destructed (word ob)); inversion Hm; subst s' obs; clear Hm; fr1 rc_eq_refl.
      all: try solve [intros o0; rewrite sumZ_cons, sumZ_nil; cbn [frame_strong]; rewrite ?Hc2; lia].
      all: try solve [repeat constructor; cbn; auto; apply (nostrong_strong O _ Hn2)]. }
  inversion Hm; subst s' obs; clear Hm.
  match goal with |- Step _ (sett _ _ (with_frames _ (?F :: k))) => change (F :: k) with ([F] ++ k) end.
  assert (Hwfn : Forall (frame_wf (length (vars x))) [FRet c true]).
  { repeat constructor; cbn; auto. apply (nostrong_strong O _ Hn1). }
  destruct (Z.eqb_spec (strong (word ob)) 0) as [Hz|Hnz].
  - pose proof (upd_add_strong (word ob) 1 Hw ltac:(lia) ltac:(lia)) as U1. pose proof U1 as (Hw1 & _).
    destruct (upd_trans _ _ _ _ _ U1 (upd_with_epoch _ r Hw1)) as (Hw' & Hs' & Hd').
    pose proof (HA _ _ Hg) as Hinv.
    eapply (step_obj s _ t x x _ k _ o ob _ 0 HI Hx Hf (threads_seto _ _ _) Hg); sides Wx.
    all: try solve [cbn [word]; congruence].
    all: on_others ltac:(intros o0 Ho0 _; others Hf; rewrite Hc1; lia).
    destruct (destructed (word ob)) eqn:Hd.
    + destruct (j_dead _ _ _ Hinv Hd). apply obj_inv_dead; cbn [word dropped freed]; try congruence; try apply (j_freed _ _ _ Hinv);
        others Hf; rewrite ?Hc1; lia.
    + destruct (live_facts _ _ _ Hinv Hd) as (J1 & J2 & J3 & Jd & Jf & Jo). pose proof (b2z_range (tok ob)).
      fin_live Hf I; rewrite ?Hc1; try lia.
  - destruct (upd_with_epoch _ r Hw) as (Hw' & Hs' & Hd').
    match goal with |- Step _ (sett (seto ?s ?i ?ob') ?t (with_frames ?x (?new ++ ?k))) =>
      eapply (step_view s t x k _ i _ ob' new); try eassumption; try reflexivity;
      try (cbn [word]; lia); try (cbn [word]; congruence); wfpush end.
    all: try solve [repeat constructor].
    all: try solve [intros o0; rewrite sumZ_cons, sumZ_nil; cbn [frame_strong frame_attempt]; rewrite ?Hc1; lia].
    exact Hwfn.
Qed.

(* ---- procedure return *)
Lemma Forall_set_nth {A} (P : A -> Prop) l n a : Forall P l -> P a -> Forall P (set_nth l n a).
Proof.
  revert n; induction l as [|c l IH]; intros [|n] H Ha; cbn [set_nth]; auto; inversion H; subst; constructor; auto.
Qed.

Lemma getv_nth x d : (d < length (vars x))%nat -> nth_error (vars x) d = Some (getv x d).
Proof. intros H. unfold getv. apply nth_error_nth'. auto. Qed.

Lemma sumZ_setv_none o x d h : (d < length (vars x))%nat -> getv x d = HNone ->
  sumZ (handle_strong o) (set_nth (vars x) d h) = sumZ (handle_strong o) (vars x) + handle_strong o h.
Proof.
  intros Hd Hn. pose proof (getv_nth x d Hd) as E. rewrite Hn in E.
  rewrite (sumZ_set_nth _ _ _ _ _ E). cbn. lia.
Qed.

Lemma micro_inv_FRet s t rec s' obs x k c b :
  Inv' s -> gett s t = Some x -> frames x = FRet c b :: k ->
  micro s t rec = Some (s', obs) -> Step s s'.
Proof.
  intros HI Hx Hf Hm. open_micro Hm Hx Hf. prep HI Hx Hf HA HN HT Wx Sx Hfw Hst.
  destruct Hwf0 as (Hcd & Hh). cbn in Hdn0.
  inversion Hm; subst s' obs; clear Hm.
  change (with_frames ?X k) with (with_frames X ([] ++ k)).
  match goal with |- Step _ (sett s t (with_frames ?X1 _)) =>
    eapply (step_same s s t x X1 [] k _ HI Hx Hf); auto end.
  - eapply (thr_wf_write x _ _ k [] Wx Hf); auto; try reflexivity.
    + cbn [vars with_res setv with_vars]. apply length_set_nth.
    + cbn [vars with_res setv with_vars]. apply Forall_set_nth; auto. apply Wx.
    + rewrite sumZ_nil; lia.
  - intros o Ho. others Hf. cbn [vars with_res setv with_vars]. rewrite sumZ_setv_none by auto. lia.
Qed.

(* ---- AtomicRc cells *)
Definition same_view (ob ob' : obj) : Prop :=
  word ob' = word ob /\ tok ob' = tok ob /\ dropped ob' = dropped ob /\ freed ob' = freed ob /\ wtok ob' = wtok ob.

Definition views_kept (s s1 : state) : Prop :=
  forall i, match geto s i with
            | Some ob => exists ob', geto s1 i = Some ob' /\ same_view ob ob'
            | None => geto s1 i = None
            end.

Lemma views_kept_refl s s1 : (forall o, geto s1 o = geto s o) -> views_kept s s1.
Proof. intros H i. rewrite H. destruct (geto s i); auto. eexists; split; eauto. repeat split. Qed.

Lemma set_cell_spec s c l old : get_cell s c = Some old ->
  threads (set_cell s c l) = threads s /\ pending (set_cell s c l) = pending s /\
  (forall o, owners (set_cell s c l) o = owners s o - is_o o old + is_o o l) /\
  (forall o, attempts (set_cell s c l) o = attempts s o) /\ views_kept s (set_cell s c l).
Proof.
  unfold get_cell, set_cell. destruct (c <? 1000).
  - intros H. repeat split; auto.
    + intros o. unfold owners. cbn [threads cells objs]. rewrite (sumZ_set_nth _ _ _ _ _ H). lia.
    + apply views_kept_refl. reflexivity.
  - set (i := nat_of ((c - 1000) / 2)). destruct (geto s i) as [ob|] eqn:Hg; [|discriminate]. intros H.
    split; [apply threads_seto|]. split; [apply pending_seto|]. split; [|split].
    + intros o. rewrite (owners_seto _ _ _ _ _ Hg). unfold obj_links_strong. cbn [links with_links].
      rewrite (sumZ_set_nth _ _ _ _ _ H). lia.
    + intros o. apply attempts_seto.
    + intros j. destruct (Nat.eq_dec i j) as [<-|Hne].
      * rewrite Hg, (geto_seto_eq _ _ _ _ Hg). eexists; split; eauto. repeat split.
      * rewrite geto_seto_neq by auto. destruct (geto s j); auto. eexists; split; eauto. repeat split.
Qed.

(* a step after which every object looks the same to both sides (links may have changed) *)
Lemma step_views s s1 t x x1 new k f :
  Inv' s -> gett s t = Some x -> frames x = f :: k -> threads s1 = threads s -> views_kept s s1 ->
  thr_wf (with_frames x1 (new ++ k)) -> Forall (frame_st s) new ->
  (forall o, o <> O -> owners (sett s1 t (with_frames x1 (new ++ k))) o = owners s o /\
                       attempts (sett s1 t (with_frames x1 (new ++ k))) o = attempts s o) ->
  Step s (sett s1 t (with_frames x1 (new ++ k))).
Proof.
  intros HI Hx Hfr Hth Hv Hwf Hst Hoth.
  pose proof HI as (HA & HB & HC). destruct (HC _ _ Hx) as (Wx & Sx).
  assert (Hmono : obj_mono s s1 0).
  { intros o ob Hg. specialize (Hv o). rewrite Hg in Hv. destruct Hv as (ob' & Hg' & E1 & E2 & E3 & E4 & E5).
    exists ob'. rewrite E1, E2, E3. auto. }
  apply (step_intro s t x s1 _ 0); auto.
  - apply Hex0; auto.
  - cbn [frames with_frames]. rewrite Hfr in Sx. inversion Sx; subst. apply Forall_app. split.
    + eapply Forall_impl; [|exact Hst]. intros a Ha. eapply frame_st_mono; eauto. eapply dec_false_on_0; eauto.
    + eapply Forall_impl; [|eassumption]. intros a Ha. eapply frame_st_mono; eauto. eapply dec_false_on_0; eauto.
  - intros o Ho. destruct (Hoth o Ho) as (Eo & Ea). specialize (Hv o).
    destruct (geto s o) as [ob0|] eqn:Hg.
    + destruct Hv as (ob' & Hg' & E1 & E2 & E3 & E4 & E5). rewrite Hg'.
      eapply obj_inv_view; eauto; rewrite ?E1; auto.
    + rewrite Hv, Eo, Ea. auto.
Qed.

Ltac vars_norm := cbn [vars with_res with_resw setv with_vars].
Ltac wfwrite Wx Hf :=
  match goal with |- thr_wf (with_frames _ (?new ++ ?k)) =>
    eapply (thr_wf_write _ _ _ k new Wx Hf);
    [ reflexivity
    | vars_norm; rewrite ?length_set_nth; reflexivity
    | vars_norm; repeat apply Forall_set_nth; try apply Wx; try exact I
    | .. ]; try solve [repeat constructor; auto]; try ndst_goal
  end.

Lemma micro_inv_FLoad121 s t rec s' obs x k c d :
  Inv' s -> bounded s' -> gett s t = Some x -> frames x = FLoad121 c d :: k ->
  micro s t rec = Some (s', obs) -> Step s s'.
Proof.
  intros HI HB' Hx Hf Hm. open_micro Hm Hx Hf. prep HI Hx Hf HA HN HT Wx Sx Hfw Hst.
  cbn in Hdn0.
  destruct (get_cell s c) as [l|] eqn:Hc; inversion Hm; subst s' obs; clear Hm; [|kill_err' HB'].
  change (with_frames ?X k) with (with_frames X ([] ++ k)).
  match goal with |- Step _ (sett s t (with_frames ?X1 _)) =>
    eapply (step_same s s t x X1 [] k _ HI Hx Hf); auto end.
  - wfwrite Wx Hf.
  - intros o Ho. others Hf. vars_norm.
    destruct (Nat.lt_ge_cases d (length (vars x))) as [Hd|Hd].
    + pose proof (getv_nth x d Hd) as E. rewrite Hdn0 in E. rewrite (sumZ_set_nth _ _ _ _ _ E). cbn. lia.
    + rewrite set_nth_none by (apply nth_error_None; auto). lia.
Qed.

Ltac cell_norm Hx1 Hown Hatt Hf :=
  rewrite (owners_sett _ _ _ _ _ Hx1), Hown, (attempts_sett _ _ _ _ _ Hx1), Hatt;
  rewrite ?thr_strong_with_frames, ?thr_att_with_frames, ?sumZ_app, ?sumZ_cons, ?sumZ_nil;
  rewrite ?(thr_strong_top _ _ _ _ Hf), ?(thr_att_top _ _ _ _ Hf); credits; vars_norm.

Lemma sumZ_setv_none' o x d h : getv x d = HNone -> (d < length (vars x))%nat ->
  sumZ (handle_strong o) (set_nth (vars x) d h) = sumZ (handle_strong o) (vars x) + handle_strong o h.
Proof. intros; apply sumZ_setv_none; auto. Qed.

Lemma dec_frames_credit o o' : sumZ (frame_strong o) (dec_frames o' 1 false) = if Nat.eqb o' o then (if Nat.eqb o' 0 then 0 else 1) else 0.
Proof.
  destruct o'; cbn [dec_frames]; rewrite ?sumZ_cons, ?sumZ_nil; cbn [frame_strong].
  - destruct (Nat.eqb 0 o); reflexivity.
  - change (Nat.eqb (S o') 0) with false. cbv iota. destruct (Nat.eqb (S o') o); lia.
Qed.
Lemma dec_frames_att o o' : sumZ (frame_attempt o) (dec_frames o' 1 false) = 0.
Proof. destruct o'; cbn [dec_frames]; rewrite ?sumZ_cons, ?sumZ_nil; cbn [frame_attempt]; lia. Qed.
Lemma dec_frames_wf n o' tmp : Forall (frame_wf n) (dec_frames o' 1 tmp) /\ Forall not_cas (dec_frames o' 1 tmp) /\
  Forall not_op (dec_frames o' 1 tmp) /\ sumZ ndst (dec_frames o' 1 tmp) = 0 /\
  (forall x, Forall (dst_none x) (dec_frames o' 1 tmp)) /\ (forall s, Forall (frame_st s) (dec_frames o' 1 tmp)).
Proof.
  destruct o'; cbn [dec_frames]; repeat split; intros; repeat constructor; cbn; try lia; discriminate.
Qed.

Lemma micro_inv_FSwap122 s t rec s' obs x k c new d :
  Inv' s -> bounded s' -> gett s t = Some x -> frames x = FSwap122 c new d :: k ->
  micro s t rec = Some (s', obs) -> Step s s'.
Proof.
  intros HI HB' Hx Hf Hm. open_micro Hm Hx Hf. prep HI Hx Hf HA HN HT Wx Sx Hfw Hst.
  destruct (fst new) eqn:Hn.
  2:{ inversion Hm; subst s' obs; clear Hm. fr1 rc_eq_refl. destruct d; ndst_goal. }
  destruct (get_cell s c) as [old|] eqn:Hc; [|inversion Hm; subst; kill_err' HB'].
  destruct (set_cell_spec s c new old Hc) as (Hth & Hpe & Hown & Hatt & Hvk).
  assert (Hx1 : gett (set_cell s c new) t = Some x) by (unfold gett in *; rewrite Hth; auto).
  assert (Hnew : forall o, o <> O -> is_o o new = 0) by (intros; apply is_o_neq; lia).
  destruct d as [dd|]; inversion Hm; subst s' obs; clear Hm.
  - cbn in Hdn0, Hwf0. change (with_frames ?X k) with (with_frames X ([] ++ k)).
    match goal with |- Step _ (sett _ t (with_frames ?X1 _)) =>
      eapply (step_views s _ t x X1 [] k _ HI Hx Hf Hth Hvk); auto end.
    + wfwrite Wx Hf.
    + intros o Ho. cell_norm Hx1 Hown Hatt Hf. rewrite sumZ_setv_none by auto. cbn [handle_strong]. rewrite Hnew by auto. lia.
  - destruct (dec_frames_wf (length (vars x)) (fst old) false) as (D1 & D2 & D3 & D4 & D5 & D6).
    eapply (step_views s _ t x x _ k _ HI Hx Hf Hth Hvk); auto.
    + eapply (thr_wf_push x x _ k _ Wx Hf); auto. rewrite D4. apply ndst_range.
    + intros o Ho. cell_norm Hx1 Hown Hatt Hf. rewrite dec_frames_credit, dec_frames_att, Hnew by auto.
      unfold is_o. destruct (Nat.eqb_spec (fst old) o); [|lia]. destruct (Nat.eqb_spec (fst old) 0); lia.
Qed.

Lemma views_kept_trans a b c : views_kept a b -> views_kept b c -> views_kept a c.
Proof.
  intros H1 H2 i. specialize (H1 i). destruct (geto a i) as [ob|].
  - destruct H1 as (ob' & Hg' & E). specialize (H2 i). rewrite Hg' in H2. destruct H2 as (ob'' & Hg'' & E').
    exists ob''. split; auto. destruct E as (?&?&?&?&?), E' as (?&?&?&?&?). repeat split; congruence.
  - specialize (H2 i). rewrite H1 in H2. auto.
Qed.

Lemma micro_inv_FSwap120 s t rec s' obs x k c new d :
  Inv' s -> bounded s' -> gett s t = Some x -> frames x = FSwap120 c new d :: k ->
  micro s t rec = Some (s', obs) -> Step s s'.
Proof.
  intros HI HB' Hx Hf Hm. open_micro Hm Hx Hf. prep HI Hx Hf HA HN HT Wx Sx Hfw Hst.
  destruct (get_cell s c) as [old|] eqn:Hc; [|inversion Hm; subst; kill_err' HB'].
  set (s0 := see_epoch s (oracle_epoch s rec 1120)) in *.
  assert (Hrc : rc_eq s s0) by apply rc_eq_see_epoch.
  set (new' := (fst new, G s0 mod 16)) in *.
  assert (Hc0 : get_cell s0 c = Some old) by (rewrite (get_cell_rc_eq _ _ _ Hrc); auto).
  destruct (set_cell_spec s0 c new' old Hc0) as (Hth & Hpe & Hown & Hatt & Hvk).
  assert (Hth' : threads (set_cell s0 c new') = threads s) by (rewrite Hth; apply Hrc).
  assert (Hx1 : gett (set_cell s0 c new') t = Some x) by (unfold gett in *; rewrite Hth'; auto).
  assert (Hown' : forall o, owners (set_cell s0 c new') o = owners s o - is_o o old + is_o o new).
  { intros. rewrite Hown, (owners_rc_eq _ _ _ Hrc). reflexivity. }
  assert (Hatt' : forall o, attempts (set_cell s0 c new') o = attempts s o).
  { intros. rewrite Hatt, (attempts_rc_eq _ _ _ Hrc). reflexivity. }
  assert (Hvk' : views_kept s (set_cell s0 c new')).
  { eapply views_kept_trans; [|exact Hvk]. apply views_kept_refl. intros; apply geto_rc_eq; auto. }
  clearbody s0 new'.
  destruct d as [dd|]; inversion Hm; subst s' obs; clear Hm.
  - cbn in Hdn0, Hwf0. change (with_frames ?X k) with (with_frames X ([] ++ k)).
    match goal with |- Step _ (sett _ t (with_frames ?X1 _)) =>
      eapply (step_views s _ t x X1 [] k _ HI Hx Hf Hth' Hvk'); auto end.
    + wfwrite Wx Hf.
    + intros o Ho. cell_norm Hx1 Hown' Hatt' Hf. rewrite sumZ_setv_none by auto. cbn [handle_strong]. lia.
  - destruct (dec_frames_wf (length (vars x)) (fst old) false) as (D1 & D2 & D3 & D4 & D5 & D6).
    eapply (step_views s _ t x x _ k _ HI Hx Hf Hth' Hvk'); auto.
    + eapply (thr_wf_push x x _ k _ Wx Hf); auto. rewrite D4. apply ndst_range.
    + intros o Ho. cell_norm Hx1 Hown' Hatt' Hf. rewrite dec_frames_credit, dec_frames_att.
      unfold is_o at 1. destruct (Nat.eqb_spec (fst old) o); [|lia]. destruct (Nat.eqb_spec (fst old) 0); lia.
Qed.

Lemma thr_wf_push1 x f k a :
  thr_wf x -> frames x = f :: k -> frame_wf (length (vars x)) a -> top_ok (with_frames x (a :: k)) ->
  dst_none x a -> ndst a <= ndst f -> not_op a -> thr_wf (with_frames x ([a] ++ k)).
Proof.
  intros (Hv & Hf & Ht & Hn & Hd & Hc & Hq) Hfr Hnew Htop Hdn Hnd Hno. rewrite Hfr in *. cbn [tl] in Hn.
  inversion Hf; subst. inversion Hd; subst. unfold thr_wf. cbn [vars frames with_frames app tl].
  repeat split; auto.
  - rewrite sumZ_cons in *. lia.
  - destruct a; cbn [below_op_quiet]; try contradiction; eapply below_op_quiet_tl; eauto.
Qed.

Lemma micro_inv_FCas120 s t rec s' obs x k c e des src d :
  Inv' s -> gett s t = Some x -> frames x = FCas120 c e des src d :: k ->
  micro s t rec = Some (s', obs) -> Step s s'.
Proof.
  intros HI Hx Hf Hm. open_micro Hm Hx Hf. prep HI Hx Hf HA HN HT Wx Sx Hfw Hst.
  pose proof Wx as (_ & _ & Htop & _). unfold top_ok in Htop. rewrite Hf in Htop.
  inversion Hm; subst s' obs; clear Hm.
  match goal with |- Step _ (sett ?S ?T (with_frames ?X (?F :: ?K))) =>
    change (F :: K) with ([F] ++ K); apply (step_frames_only s S t x X [F] K _ HI Hx Hf) end;
    auto using rc_eq_see_epoch; try sum1; try solve [repeat constructor].
  apply (thr_wf_push1 x _ k _ Wx Hf); auto; try exact I.
  unfold top_ok. cbn [frames with_frames fst]. exists (snd des). unfold getv in *. cbn [vars with_frames]. rewrite Htop. destruct des; reflexivity.
  cbn; lia.
Qed.

Lemma micro_inv_FCas123 s t rec s' obs x k c e desraw src d :
  Inv' s -> bounded s' -> gett s t = Some x -> frames x = FCas123 c e desraw src d :: k ->
  micro s t rec = Some (s', obs) -> Step s s'.
Proof.
  intros HI HB' Hx Hf Hm. open_micro Hm Hx Hf. prep HI Hx Hf HA HN HT Wx Sx Hfw Hst.
  pose proof Wx as (_ & _ & Htop & _). unfold top_ok in Htop. rewrite Hf in Htop. destruct Htop as (ts & Htop).
  cbn in Hdn0. destruct Hwf0 as (Hsrc & Hd & Hne).
  destruct (get_cell s c) as [cur|] eqn:Hc; [|inversion Hm; subst; kill_err' HB'].
  destruct (Nat.eqb_spec (fst cur) (fst e)) as [He|Hne'];
    [destruct (Z.eqb_spec (snd cur) (snd e))|]; cbn [andb] in Hm; inversion Hm; subst s' obs; clear Hm.
  - destruct (set_cell_spec s c desraw cur Hc) as (Hth & Hpe & Hown & Hatt & Hvk).
    assert (Hx1 : gett (set_cell s c desraw) t = Some x) by (unfold gett in *; rewrite Hth; auto).
    change (with_frames ?X k) with (with_frames X ([] ++ k)).
    match goal with |- Step _ (sett _ t (with_frames ?X1 _)) =>
      eapply (step_views s _ t x X1 [] k _ HI Hx Hf Hth Hvk); auto end.
    + wfwrite Wx Hf.
    + intros o Ho. cell_norm Hx1 Hown Hatt Hf.
      pose proof (getv_nth x src Hsrc) as E1. rewrite Htop in E1.
      assert (E2 : nth_error (set_nth (vars x) src HNone) d = Some HNone).
      { rewrite nth_error_set_nth_neq by auto. rewrite (getv_nth x d Hd), Hdn0. auto. }
      rewrite (sumZ_set_nth _ _ _ _ _ E2), (sumZ_set_nth _ _ _ _ _ E1). cbn [handle_strong].
      unfold is_o. cbn [fst]. rewrite He. lia.
  - match goal with |- Step _ (sett ?S ?T (with_frames ?X (?F :: ?K))) =>
      change (F :: K) with ([F] ++ K); apply (step_frames_only s S t x X [F] K _ HI Hx Hf) end;
      auto using rc_eq_refl; try sum1; try solve [repeat constructor].
    apply (thr_wf_push1 x _ k _ Wx Hf); auto; try exact I; [repeat split; auto| |cbn; lia].
    unfold top_ok. cbn [frames with_frames]. exists ts. exact Htop.
  - change (with_frames ?X k) with (with_frames X ([] ++ k)).
    match goal with |- Step _ (sett s t (with_frames ?X1 _)) =>
      eapply (step_same s s t x X1 [] k _ HI Hx Hf); auto end.
    + wfwrite Wx Hf.
    + intros o Ho. others Hf. vars_norm.
      pose proof (getv_nth x d Hd) as E. rewrite Hdn0 in E. rewrite (sumZ_set_nth _ _ _ _ _ E). cbn. lia.
Qed.

(* ---- deferred function start *)
Lemma await_start s t x k kd o new p rest g :
  Inv' s -> gett s t = Some x -> frames x = FAwait :: k ->
  take_pending (pending s) kd o = Some (p, rest) ->
  (kd = KDestruct /\ new = [FTD113 o; FEndClosure]) \/ (kd = KDealloc /\ new = [FTDe102 o; FEndClosure]) ->
  Step s (sett (see_epoch (set_pending s rest) g) t (with_frames (with_inclosure x true) (new ++ k))).
Proof.
  intros HI Hx Hf Htp Hk. pose proof HI as (HA & HN & HT). destruct (HT _ _ Hx) as (Wx & Sx).
  set (s0 := set_pending s rest). assert (Hrc : rc_eq s0 (see_epoch s0 g)) by apply rc_eq_see_epoch.
  destruct (take_pending_sum _ _ _ _ _ (pend_is KDestruct O) Htp) as (_ & Hpk & Hpo).
  eapply (step_same s _ t x _ new k _ HI Hx Hf).
  - apply Hrc.
  - intros; apply (geto_rc_eq _ _ _ Hrc).
  - eapply (thr_wf_push x _ _ k new Wx Hf); try reflexivity; destruct Hk as [(_ & ->)|(_ & ->)]; wfsub.
  - destruct Hk as [(_ & ->)|(_ & ->)]; repeat constructor.
  - intros o0 Ho0.
    assert (Hx0 : gett (see_epoch s0 g) t = Some x) by (rewrite (gett_rc_eq _ _ _ Hrc); exact Hx).
    rewrite (owners_sett _ _ _ _ _ Hx0), (attempts_sett _ _ _ _ _ Hx0), (owners_rc_eq _ _ _ Hrc), (attempts_rc_eq _ _ _ Hrc).
    rewrite thr_strong_with_frames, thr_att_with_frames, !sumZ_app, (thr_strong_top _ _ _ _ Hf), (thr_att_top _ _ _ _ Hf).
    unfold attempts. cbn [pending threads s0 set_pending].
    destruct (take_pending_sum _ _ _ _ _ (pend_is KDestruct o0) Htp) as (Hsum & _ & _). rewrite Hsum.
    unfold pend_is at 2. rewrite Hpk, Hpo. change (owners s0 o0) with (owners s o0).
    destruct Hk as [(-> & ->)|(-> & ->)]; rewrite ?sumZ_cons, ?sumZ_nil; cbn [frame_strong frame_attempt pkind_eqb andb vars with_inclosure]; destruct (Nat.eqb o o0); lia.
Qed.

Lemma micro_inv_FAwait s t rec s' obs x k :
  Inv' s -> bounded s' -> gett s t = Some x -> frames x = FAwait :: k ->
  micro s t rec = Some (s', obs) -> Step s s'.
Proof.
  intros HI HB' Hx Hf Hm. open_micro Hm Hx Hf.
  destruct rec as [|z [|oz r]].
  all: try (inversion Hm; subst; kill_err' HB').
  all: destruct z as [|p|p]; try (inversion Hm; subst; kill_err' HB').
  all: repeat (destruct p as [p|p|]; try (inversion Hm; subst; kill_err' HB')).
  - destruct (take_pending (pending s) KDestruct (nat_of oz)) as [[p rest]|] eqn:Htp;
      inversion Hm; subst s' obs; clear Hm; [|kill_err' HB'].
    change (FTD113 (nat_of oz) :: FEndClosure :: k) with ([FTD113 (nat_of oz); FEndClosure] ++ k).
    eapply await_start; eauto.
  - destruct (take_pending (pending s) KDealloc (nat_of oz)) as [[p rest]|] eqn:Htp;
      inversion Hm; subst s' obs; clear Hm; [|kill_err' HB'].
    change (FTDe102 (nat_of oz) :: FEndClosure :: k) with ([FTDe102 (nat_of oz); FEndClosure] ++ k).
    eapply await_start; eauto.
Qed.

(* ---- operation start *)
Definition op_tail (opc : Z) : list frame := [FMay; FOpEnd opc; FOp].

Lemma FOp_bottom x k : thr_wf x -> frames x = FOp :: k -> k = [].
Proof. intros (_&_&_&_&_&_&Hq) Hf. rewrite Hf in Hq. exact Hq. Qed.

(* operation start that does not touch objects, cells or the pending list *)
Lemma op_step s s1 t x x1 fs opc :
  Inv' s -> gett s t = Some x -> frames x = [FOp] -> rc_eq s s1 ->
  length (vars x1) = length (vars x) -> Forall handle_wf (vars x1) ->
  Forall (frame_wf (length (vars x))) fs ->
  top_ok (with_frames x1 (fs ++ op_tail opc)) -> Forall not_cas (tl fs) ->
  Forall (dst_none x1) fs -> sumZ ndst fs <= 1 -> Forall not_op fs -> Forall (frame_st s) fs ->
  (forall o, o <> O -> sumZ (handle_strong o) (vars x1) + sumZ (frame_strong o) fs = sumZ (handle_strong o) (vars x) /\
                       sumZ (frame_attempt o) fs = 0) ->
  Step s (sett s1 t (with_frames x1 (fs ++ op_tail opc))).
Proof.
  intros HI Hx Hf Hrc Hlen Hv Hwf Htop Hnc Hdn Hnd Hno Hst Hcr.
  pose proof HI as (HA & HN & HT). destruct (HT _ _ Hx) as (Wx & Sx).
  assert (Hx1 : gett s1 t = Some x) by (rewrite (gett_rc_eq _ _ _ Hrc); auto).
  apply (step_intro s t x s1 _ 0); auto.
  - apply Hrc.
  - unfold thr_wf. cbn [vars frames with_frames]. rewrite Hlen. repeat split; auto.
    + apply Forall_app; split; auto. unfold op_tail. repeat constructor.
    + destruct fs as [|a fs]; cbn [app tl op_tail] in *; [repeat constructor|].
      apply Forall_app; split; auto. repeat constructor.
    + apply Forall_app; split; auto. unfold op_tail. repeat constructor.
    + rewrite sumZ_app. unfold op_tail. rewrite !sumZ_cons, sumZ_nil. cbn. lia.
    + apply below_op_quiet_app; auto. cbn. auto.
  - apply obj_mono_refl_geto. intros; apply geto_rc_eq; auto.
  - apply Hex0; auto.
  - cbn [frames with_frames]. apply Forall_app. split.
    + eapply Forall_impl; [|exact Hst]. intros a. apply frame_st_ext. intros; apply geto_rc_eq; auto.
    + unfold op_tail. repeat constructor.
  - intros o Ho. destruct (Hcr o Ho) as (C1 & C2).
    assert (Eo : owners (sett s1 t (with_frames x1 (fs ++ op_tail opc))) o = owners s o).
    { rewrite (owners_sett _ _ _ _ _ Hx1), (owners_rc_eq _ _ _ Hrc), thr_strong_with_frames.
      unfold thr_strong. rewrite Hf, sumZ_app. unfold op_tail. rewrite !sumZ_cons, !sumZ_nil. cbn [frame_strong]. lia. }
    assert (Ea : attempts (sett s1 t (with_frames x1 (fs ++ op_tail opc))) o = attempts s o).
    { rewrite (attempts_sett _ _ _ _ _ Hx1), (attempts_rc_eq _ _ _ Hrc), thr_att_with_frames.
      unfold thr_att. rewrite Hf, sumZ_app. unfold op_tail. rewrite !sumZ_cons, !sumZ_nil. cbn [frame_attempt]. lia. }
    rewrite (geto_rc_eq _ _ _ Hrc). destruct (geto s o) eqn:Hg.
    + eapply obj_inv_same; eauto.
    + rewrite Eo, Ea. auto.
Qed.

Inductive shape : list Z -> Prop :=
| sh0 d : shape [0; d] | sh1 n d : shape [1; n; d] | sh2 c d : shape [2; c; d] | sh3 i d : shape [3; i; d]
| sh4 i : shape [4; i] | sh5 i : shape [5; i] | sh6 a d : shape [6; a; d] | sh7 a : shape [7; a] | sh8 a : shape [8; a]
| sh9 a d : shape [9; a; d] | sh10 a n d : shape [10; a; n; d] | sh11 a d : shape [11; a; d] | sh12 a : shape [12; a]
| sh13 a d : shape [13; a; d] | sh14 a d : shape [14; a; d] | sh15 a d : shape [15; a; d] | sh16 a d : shape [16; a; d]
| sh17 a d : shape [17; a; d] | sh18 a d : shape [18; a; d] | sh19 a d : shape [19; a; d] | sh20 : shape [20] | sh21 : shape [21]
| sh24 d : shape [24; d] | sh25 a : shape [25; a] | sh30 ck a b d : shape [30; ck; a; b; d]
| sh31 ck a b src : shape [31; ck; a; b; src] | sh32 ck a b src d : shape [32; ck; a; b; src; d]
| sh33 ck a b e src d : shape [33; ck; a; b; e; src; d].

Definition known_shape (op : list Z) : bool :=
  match op with
  | [0; _] | [1; _; _] | [2; _; _] | [3; _; _] | [4; _] | [5; _] | [6; _; _] | [7; _] | [8; _] | [9; _; _]
  | [10; _; _; _] | [11; _; _] | [12; _] | [13; _; _] | [14; _; _] | [15; _; _] | [16; _; _] | [17; _; _]
  | [18; _; _] | [19; _; _] | [20] | [21] | [24; _] | [25; _] | [30; _; _; _; _] | [31; _; _; _; _]
  | [32; _; _; _; _; _] | [33; _; _; _; _; _; _] => true
  | _ => false
  end.

Ltac exhaust_op op :=
  destruct op as [|?opc ?l];
  [|destruct opc as [|?p|?p];
    [|do 6 (try match goal with p : positive |- _ => destruct p as [p|p|] end)|]];
  try match goal with l : list Z |- _ => destruct l as [|?a1 [|?a2 [|?a3 [|?a4 [|?a5 [|?a6 [|?a7 ?l]]]]]]] end.

Lemma known_shape_true op : known_shape op = true -> shape op.
Proof. intros H. exhaust_op op; try discriminate H; constructor. Qed.

Lemma start_op_unknown s x rec op : known_shape op = false -> start_op s x rec op = (set_err s 9, x, [], []).
Proof. intros H. exhaust_op op; try discriminate H; reflexivity. Qed.

Lemma geto_alloc_new s n : geto (fst (alloc s n)) (snd (alloc s n)) =
  Some {| word := alloc_word n; dropped := false; freed := false; tok := false; wtok := false; links := [null_link; null_link] |}.
Proof. cbn. rewrite nth_error_app2 by lia. rewrite Nat.sub_diag. reflexivity. Qed.
Lemma geto_alloc_old s n o : o <> snd (alloc s n) -> geto (fst (alloc s n)) o = geto s o.
Proof.
  cbn. intros Ho. destruct o; cbn; auto. destruct (Nat.lt_ge_cases o (length (objs s))).
  - apply nth_error_app1; auto.
  - rewrite (proj2 (nth_error_None _ _) H). apply nth_error_None. rewrite app_length. cbn. lia.
Qed.
Lemma geto_alloc_none s n : geto s (snd (alloc s n)) = None.
Proof. cbn. apply nth_error_None. lia. Qed.
Lemma owners_alloc s n o : o <> O -> owners (fst (alloc s n)) o = owners s o.
Proof.
  intros Ho. unfold owners. cbn [alloc fst threads cells objs]. rewrite sumZ_app, sumZ_cons, sumZ_nil.
  unfold obj_links_strong at 2. cbn [links]. rewrite !sumZ_cons, sumZ_nil. rewrite (is_o_neq o null_link) by (cbn; auto). lia.
Qed.
Lemma attempts_alloc s n o : attempts (fst (alloc s n)) o = attempts s o.
Proof. reflexivity. Qed.

(* operation start that allocates an object with n shares, all handed to the thread *)
Lemma op_alloc s t x x1 fs opc n :
  Inv' s -> gett s t = Some x -> frames x = [FOp] -> 0 < n < LIM ->
  length (vars x1) = length (vars x) -> Forall handle_wf (vars x1) ->
  Forall (frame_wf (length (vars x))) fs -> Forall not_cas fs ->
  Forall (dst_none x1) fs -> sumZ ndst fs <= 1 -> Forall not_op fs -> Forall (frame_st (fst (alloc s n))) fs ->
  (forall o, o <> O -> sumZ (handle_strong o) (vars x1) + sumZ (frame_strong o) fs =
                       sumZ (handle_strong o) (vars x) + (if Nat.eqb o (snd (alloc s n)) then n else 0) /\
                       sumZ (frame_attempt o) fs = 0) ->
  Step s (sett (fst (alloc s n)) t (with_frames x1 (fs ++ op_tail opc))).
Proof.
  intros HI Hx Hf Hn Hlen Hv Hwf Hnc Hdn Hnd Hno Hst Hcr.
  pose proof HI as (HA & HN & HT). destruct (HT _ _ Hx) as (Wx & Sx).
  set (s1 := fst (alloc s n)) in *. set (o1 := snd (alloc s n)) in *.
  assert (Hx1 : gett s1 t = Some x) by exact Hx.
  destruct (alloc_word_ok n ltac:(lia)) as (Hw & Hs & Hd).
  apply (step_intro s t x s1 _ 0); auto.
  - unfold thr_wf. cbn [vars frames with_frames]. rewrite Hlen. repeat split; auto.
    + apply Forall_app; split; auto. unfold op_tail. repeat constructor.
    + apply not_cas_top_ok. cbn [frames with_frames]. destruct fs; cbn; [exact I|]. inversion Hnc; auto.
    + destruct fs as [|a fs]; cbn [app tl op_tail] in *; [repeat constructor|].
      inversion Hnc; subst. apply Forall_app; split; auto. repeat constructor.
    + apply Forall_app; split; auto. unfold op_tail. repeat constructor.
    + rewrite sumZ_app. unfold op_tail. rewrite !sumZ_cons, sumZ_nil. cbn. lia.
    + apply below_op_quiet_app; auto. cbn. auto.
  - intros o ob Hg. exists ob. split; auto. unfold s1. rewrite geto_alloc_old; auto.
    intros ->. fold o1 in Hg. unfold o1 in Hg. rewrite geto_alloc_none in Hg. discriminate.
  - apply Hex0; auto.
  - cbn [frames with_frames]. apply Forall_app. split; auto. unfold op_tail. repeat constructor.
  - intros o Ho. destruct (Hcr o Ho) as (C1 & C2).
    assert (Eo : owners (sett s1 t (with_frames x1 (fs ++ op_tail opc))) o = owners s o + (if Nat.eqb o o1 then n else 0)).
    { rewrite (owners_sett _ _ _ _ _ Hx1). unfold s1. rewrite owners_alloc by auto. rewrite thr_strong_with_frames.
      unfold thr_strong. rewrite Hf, sumZ_app. unfold op_tail. rewrite !sumZ_cons, !sumZ_nil. cbn [frame_strong]. fold o1 in C1. lia. }
    assert (Ea : attempts (sett s1 t (with_frames x1 (fs ++ op_tail opc))) o = attempts s o).
    { rewrite (attempts_sett _ _ _ _ _ Hx1). unfold s1. rewrite attempts_alloc. rewrite thr_att_with_frames.
      unfold thr_att. rewrite Hf, sumZ_app. unfold op_tail. rewrite !sumZ_cons, !sumZ_nil. cbn [frame_attempt]. lia. }
    destruct (Nat.eqb_spec o o1) as [->|Hne].
    + unfold s1, o1. rewrite geto_alloc_new. fold s1 o1.
      destruct (HN o1 Ho (geto_alloc_none s n)) as (H1 & H2).
      apply obj_inv_live; cbn [word tok dropped freed]; auto; rewrite ?Eo, ?Ea, ?H1, ?H2, ?Hs; cbn; try lia.
    + change (geto s1 o) with (geto (fst (alloc s n)) o). rewrite geto_alloc_old by auto. destruct (geto s o) eqn:Hg.
      * apply (obj_inv_same s _ o _ (HA _ _ Hg)); [rewrite Eo; lia | exact Ea].
      * rewrite Eo, Ea. destruct (HN o Ho Hg). lia.
Qed.

Lemma op_noop s s1 t x x1 opc :
  Inv' s -> gett s t = Some x -> frames x = [FOp] -> rc_eq s s1 -> vars x1 = vars x ->
  Step s (sett s1 t (with_frames x1 ([] ++ op_tail opc))).
Proof.
  intros HI Hx Hf Hrc Hv. pose proof (Inv'_thr_wf _ _ _ HI Hx) as Wx.
  apply (op_step s s1 t x x1 [] opc); auto; try (rewrite Hv; auto; apply Wx); try solve [constructor].
  all: try (apply not_cas_top_ok; cbn; exact I).
  all: try (rewrite sumZ_nil; lia).
  all: try (intros; rewrite Hv, !sumZ_nil; lia).
Qed.

(* frames-only operation start: variables unchanged *)
Lemma op_frames s t x x1 fs opc :
  Inv' s -> gett s t = Some x -> frames x = [FOp] -> vars x1 = vars x ->
  Forall (frame_wf (length (vars x))) fs -> Forall not_cas fs ->
  Forall (dst_none x) fs -> sumZ ndst fs <= 1 -> Forall not_op fs -> Forall (frame_st s) fs ->
  (forall o, o <> O -> sumZ (frame_strong o) fs = 0 /\ sumZ (frame_attempt o) fs = 0) ->
  Step s (sett s t (with_frames x1 (fs ++ op_tail opc))).
Proof.
  intros HI Hx Hf Hv Hwf Hnc Hdn Hnd Hno Hst Hcr. pose proof (Inv'_thr_wf _ _ _ HI Hx) as Wx.
  apply (op_step s s t x x1 fs opc); auto using rc_eq_refl; try (rewrite Hv; auto; apply Wx).
  - apply not_cas_top_ok. cbn [frames with_frames]. destruct fs; cbn; [exact I|]. inversion Hnc; auto.
  - destruct fs; cbn; auto. inversion Hnc; auto.
  - eapply Forall_impl; [|exact Hdn]. intros a. unfold dst_none, getv. rewrite Hv. auto.
  - intros o Ho. destruct (Hcr o Ho). rewrite Hv. lia.
Qed.

Definition sop_goal (s : state) (t : nat) (x x0 : thr) (rec op : list Z) : Prop :=
  forall s1 x1 fs o, Inv' s -> gett s t = Some x -> frames x = [FOp] -> vars x0 = vars x ->
    op_ok (length (vars x)) op -> start_op s x0 rec op = (s1, x1, fs, o) ->
    Step s (sett s1 t (with_frames x1 (fs ++ op_tail (hd 0 op)))).

Ltac sop_open Hs := unfold start_op in Hs; cbv beta iota zeta in Hs.
Ltac noop Hs := solve [inversion Hs; subst; eapply op_noop; [eassumption|eassumption|eassumption|..]; auto using rc_eq_refl, rc_eq_set_err].

Lemma is_none_true h : is_none h = true -> h = HNone.
Proof. destruct h; cbn; auto; discriminate. Qed.

Lemma getv_vars x0 x i : vars x0 = vars x -> getv x0 i = getv x i.
Proof. unfold getv. intros ->. auto. Qed.

Ltac sop_fin l :=
  try ndst_goal; try solve [repeat constructor; cbn; auto]; try solve [repeat constructor; cbn; auto; eexists; eauto];
  try solve [repeat constructor; cbn; auto; exists l; repeat split; cbn; auto; discriminate];
  try (intros ?o0 ?Ho0; rewrite ?sumZ_cons, ?sumZ_nil; cbn [frame_strong frame_attempt handle_strong KSET cok cfail];
       rewrite ?(is_o_neq _ l) by lia; lia).

Lemma sop_6 s t x x0 rec a d : sop_goal s t x x0 rec [6; a; d].
Proof.
  intros s1 x1 fs o HI Hx Hf Hv Hok Hs. sop_open Hs. cbn in Hok.
  destruct (dst_free x0 [6; a; d]) eqn:Hdf; cbn [negb] in Hs; [|noop Hs]. cbn in Hdf. apply is_none_true in Hdf.
  rewrite (getv_vars _ _ _ Hv) in Hdf.
  destruct (getv x0 (nat_of a)) eqn:Hga; try noop Hs. inversion Hs; subst s1 x1 fs o; clear Hs.
  eapply (op_frames s t x); auto; destruct (fst l) eqn:Hl; cbn [incs_frames];
    try solve [repeat constructor; cbn; auto].
  all: sop_fin l.
Qed.

Ltac sop_start Hs Hok Hdf Hv op :=
  sop_open Hs; cbn [op_ok] in Hok;
  destruct (dst_free _ op) eqn:Hdf; cbn [negb] in Hs; [|noop Hs]; cbn in Hdf;
  try (apply is_none_true in Hdf; rewrite (getv_vars _ _ _ Hv) in Hdf).

Lemma sop_13 s t x x0 rec a d : sop_goal s t x x0 rec [13; a; d].
Proof.
  intros s1 x1 fs o HI Hx Hf Hv Hok Hs. sop_start Hs Hok Hdf Hv [13; a; d].
  destruct (getv x0 (nat_of a)) eqn:Hga; try noop Hs. inversion Hs; subst s1 x1 fs o; clear Hs.
  eapply (op_frames s t x); auto; destruct (fst l) eqn:Hl; cbn [incs_frames]. all: sop_fin l.
Qed.

Lemma sop_15 s t x x0 rec a d : sop_goal s t x x0 rec [15; a; d].
Proof.
  intros s1 x1 fs o HI Hx Hf Hv Hok Hs. sop_start Hs Hok Hdf Hv [15; a; d].
  destruct (getv x0 (nat_of a)) eqn:Hga; try noop Hs. inversion Hs; subst s1 x1 fs o; clear Hs.
  eapply (op_frames s t x); auto; destruct (fst l) eqn:Hl; cbn [incs_frames]. all: sop_fin l.
Qed.

Ltac sop_incw Hs l :=
  inversion Hs; subst; clear Hs;
  eapply op_frames; try eassumption; auto; destruct (fst l) eqn:Hl; cbn [incw_frames]; sop_fin l;
  try solve [repeat constructor; cbn; auto; unfold LIM; lia].

Lemma sop_9 s t x x0 rec a d : sop_goal s t x x0 rec [9; a; d].
Proof.
  intros s1 x1 fs o HI Hx Hf Hv Hok Hs. sop_start Hs Hok Hdf Hv [9; a; d].
  destruct (getv x0 (nat_of a)) eqn:Hga; try noop Hs. sop_incw Hs l.
Qed.
Lemma sop_11 s t x x0 rec a d : sop_goal s t x x0 rec [11; a; d].
Proof.
  intros s1 x1 fs o HI Hx Hf Hv Hok Hs. sop_start Hs Hok Hdf Hv [11; a; d].
  destruct (getv x0 (nat_of a)) eqn:Hga; try noop Hs. sop_incw Hs l.
Qed.
Lemma sop_17 s t x x0 rec a d : sop_goal s t x x0 rec [17; a; d].
Proof.
  intros s1 x1 fs o HI Hx Hf Hv Hok Hs. sop_start Hs Hok Hdf Hv [17; a; d].
  destruct (getv x0 (nat_of a)) eqn:Hga; try noop Hs. sop_incw Hs l.
Qed.

Lemma op_vars s s1 t x x1 opc :
  Inv' s -> gett s t = Some x -> frames x = [FOp] -> rc_eq s s1 ->
  length (vars x1) = length (vars x) -> Forall handle_wf (vars x1) ->
  (forall o, o <> O -> sumZ (handle_strong o) (vars x1) = sumZ (handle_strong o) (vars x)) ->
  Step s (sett s1 t (with_frames x1 ([] ++ op_tail opc))).
Proof.
  intros HI Hx Hf Hrc Hlen Hv Hcr.
  apply (op_step s s1 t x x1 [] opc); auto; try solve [constructor].
  all: try (apply not_cas_top_ok; cbn; exact I).
  all: try (rewrite sumZ_nil; lia).
  intros o Ho. rewrite (Hcr o Ho), !sumZ_nil. lia.
Qed.

Lemma sumZ_setv0 o x0 x d h : vars x0 = vars x -> getv x d = HNone -> handle_strong o h = 0 ->
  sumZ (handle_strong o) (set_nth (vars x0) d h) = sumZ (handle_strong o) (vars x).
Proof.
  intros Hv Hn Hh. rewrite Hv. destruct (Nat.lt_ge_cases d (length (vars x))) as [Hd|Hd].
  - rewrite sumZ_setv_none by auto. lia.
  - rewrite set_nth_none by (apply nth_error_None; auto). auto.
Qed.

Ltac sop_setv0 Hs Hv Hdf :=
  inversion Hs; subst; clear Hs;
  eapply op_vars; try eassumption; auto using rc_eq_refl; vars_norm;
  [ rewrite length_set_nth, Hv; reflexivity
  | apply Forall_set_nth; [rewrite Hv; eapply Inv'_thr_wf; eassumption | exact I]
  | intros ?o0 ?Ho0; apply sumZ_setv0; auto ].

Lemma sop_14 s t x x0 rec a d : sop_goal s t x x0 rec [14; a; d].
Proof.
  intros s1 x1 fs o HI Hx Hf Hv Hok Hs. sop_start Hs Hok Hdf Hv [14; a; d].
  destruct (getv x0 (nat_of a)) eqn:Hga; try noop Hs. sop_setv0 Hs Hv Hdf.
Qed.
Lemma sop_16 s t x x0 rec a d : sop_goal s t x x0 rec [16; a; d].
Proof.
  intros s1 x1 fs o HI Hx Hf Hv Hok Hs. sop_start Hs Hok Hdf Hv [16; a; d].
  destruct (getv x0 (nat_of a)) eqn:Hga; try noop Hs. sop_setv0 Hs Hv Hdf.
Qed.
Lemma sop_19 s t x x0 rec a d : sop_goal s t x x0 rec [19; a; d].
Proof.
  intros s1 x1 fs o HI Hx Hf Hv Hok Hs. sop_start Hs Hok Hdf Hv [19; a; d].
  destruct (getv x0 (nat_of a)) eqn:Hga; try noop Hs. sop_setv0 Hs Hv Hdf.
Qed.
Lemma sop_24 s t x x0 rec d : sop_goal s t x x0 rec [24; d].
Proof.
  intros s1 x1 fs o HI Hx Hf Hv Hok Hs. sop_start Hs Hok Hdf Hv [24; d].
  sop_setv0 Hs Hv Hdf. cbn. apply is_o_neq. cbn. auto.
Qed.

Lemma sop_18 s t x x0 rec a d : sop_goal s t x x0 rec [18; a; d].
Proof.
  intros s1 x1 fs o HI Hx Hf Hv Hok Hs. sop_start Hs Hok Hdf Hv [18; a; d].
  destruct (getv x0 (nat_of a)) eqn:Hga; try noop Hs. inversion Hs; subst s1 x1 fs o; clear Hs.
  eapply (op_frames s t x); auto; destruct (fst l) eqn:Hl. all: sop_fin l.
Qed.

Lemma sop_30 s t x x0 rec ck a b d : sop_goal s t x x0 rec [30; ck; a; b; d].
Proof.
  intros s1 x1 fs o HI Hx Hf Hv Hok Hs. sop_start Hs Hok Hdf Hv [30; ck; a; b; d].
  destruct (cell_ok x0 ck a); try noop Hs. inversion Hs; subst s1 x1 fs o; clear Hs.
  eapply (op_frames s t x); auto. all: sop_fin null_link.
Qed.

Lemma sop_25 s t x x0 rec a : sop_goal s t x x0 rec [25; a].
Proof. intros s1 x1 fs o HI Hx Hf Hv Hok Hs. sop_start Hs Hok Hdf Hv [25; a]. noop Hs. Qed.

Lemma sop_20 s t x x0 rec : sop_goal s t x x0 rec [20].
Proof.
  intros s1 x1 fs o HI Hx Hf Hv Hok Hs. sop_start Hs Hok Hdf Hv [20].
  destruct (gdepth x0); inversion Hs; subst; eapply op_noop; try eassumption; auto using rc_eq_refl, rc_eq_see_epoch.
Qed.

Lemma sop_21 s t x x0 rec : sop_goal s t x x0 rec [21].
Proof.
  intros s1 x1 fs o HI Hx Hf Hv Hok Hs. sop_start Hs Hok Hdf Hv [21].
  pose proof (Inv'_thr_wf _ _ _ HI Hx) as (Wv & _).
  inversion Hs; subst; clear Hs. eapply op_vars; try eassumption; auto using rc_eq_refl; cbn [vars with_guard with_vars].
  - destruct (gdepth x0) as [|[|]]; rewrite ?map_length, Hv; auto.
  - destruct (gdepth x0) as [|[|]]; rewrite Hv; auto. apply Forall_map. eapply Forall_impl; [|exact Wv].
    intros h; destruct h; cbn; auto.
  - intros o0 Ho0. destruct (gdepth x0) as [|[|]]; rewrite Hv; auto. rewrite sumZ_map. apply sumZ_ext.
    intros h _; destruct h; reflexivity.
Qed.

Lemma getv_some_lt x i h : getv x i = h -> h <> HNone -> (i < length (vars x))%nat.
Proof.
  intros H Hn. destruct (Nat.lt_ge_cases i (length (vars x))); auto.
  unfold getv in H. rewrite nth_overflow in H by auto. congruence.
Qed.

Lemma sop_3 s t x x0 rec i d : sop_goal s t x x0 rec [3; i; d].
Proof.
  intros s1 x1 fs o HI Hx Hf Hv Hok Hs. sop_start Hs Hok Hdf Hv [3; i; d].
  pose proof (Inv'_thr_wf _ _ _ HI Hx) as (Wv & _).
  destruct (getv x0 (nat_of i)) eqn:Hgi; try noop Hs. rewrite (getv_vars _ _ _ Hv) in Hgi.
  assert (Hi : (nat_of i < length (vars x))%nat) by (eapply getv_some_lt; eauto; discriminate).
  assert (Hne : nat_of i <> nat_of d) by (intros E; rewrite E in Hgi; congruence).
  pose proof (getv_nth x _ Hi) as Ei. rewrite Hgi in Ei.
  assert (Hrem : 0 <= rem) by (rewrite Forall_forall in Wv; apply (Wv (HIter o0 rem)); eapply nth_error_In; eauto).
  destruct (Z.ltb_spec 0 rem); inversion Hs; subst s1 x1 fs o; clear Hs.
  - eapply (op_vars s s t x); auto using rc_eq_refl; vars_norm; rewrite Hv.
    + rewrite !length_set_nth. auto.
    + repeat apply Forall_set_nth; auto; cbn; lia.
    + intros o1 Ho1.
      assert (E2 : nth_error (set_nth (vars x) (nat_of i) (HIter o0 (rem - 1))) (nat_of d) = Some HNone).
      { rewrite nth_error_set_nth_neq by auto. rewrite (getv_nth x _ Hok), Hdf. auto. }
      rewrite (sumZ_set_nth _ _ _ _ _ E2), (sumZ_set_nth _ _ _ _ _ Ei). cbn [handle_strong]. unfold is_o. cbn [fst].
      destruct (Nat.eqb o0 o1); lia.
  - eapply (op_vars s s t x); auto using rc_eq_refl; vars_norm.
    + rewrite length_set_nth, Hv. auto.
    + apply Forall_set_nth; [rewrite Hv; auto | exact I].
    + intros o1 Ho1. apply sumZ_setv0; auto.
Qed.

Lemma dec_frames_gen n o' cnt tmp : 0 < cnt ->
  Forall (frame_wf n) (dec_frames o' cnt tmp) /\ Forall not_cas (dec_frames o' cnt tmp) /\
  Forall not_op (dec_frames o' cnt tmp) /\ sumZ ndst (dec_frames o' cnt tmp) = 0 /\
  (forall x, Forall (dst_none x) (dec_frames o' cnt tmp)) /\ (forall s, Forall (frame_st s) (dec_frames o' cnt tmp)) /\
  (forall o, o <> O -> sumZ (frame_strong o) (dec_frames o' cnt tmp) = (if Nat.eqb o' o then cnt else 0)) /\
  (forall o, sumZ (frame_attempt o) (dec_frames o' cnt tmp) = 0).
Proof.
  intros Hc. destruct o'; cbn [dec_frames].
  - repeat split; intros; try constructor; rewrite ?sumZ_nil; auto. destruct o; [congruence|reflexivity].
  - repeat split; intros; try (rewrite sumZ_cons, sumZ_nil; cbn [frame_strong frame_attempt ndst frame_dst]; lia);
      repeat constructor; try (cbn [frame_wf]; lia); discriminate.
Qed.

(* an operation that takes the handle out of slot i and gives its shares up through [fs] *)
Lemma op_take s t x x0 x1 i h fs opc :
  Inv' s -> gett s t = Some x -> frames x = [FOp] -> vars x0 = vars x ->
  getv x0 i = h -> h <> HNone -> vars x1 = set_nth (vars x0) i HNone ->
  Forall (frame_wf (length (vars x))) fs -> Forall not_cas fs ->
  (forall y, Forall (dst_none y) fs) -> sumZ ndst fs = 0 -> Forall not_op fs -> Forall (frame_st s) fs ->
  (forall o, o <> O -> sumZ (frame_strong o) fs = handle_strong o h /\ sumZ (frame_attempt o) fs = 0) ->
  Step s (sett s t (with_frames x1 (fs ++ op_tail opc))).
Proof.
  intros HI Hx Hf Hv Hg Hn Hv1 Hwf Hnc Hdn Hnd Hno Hst Hcr. pose proof (Inv'_thr_wf _ _ _ HI Hx) as (Wv & _).
  rewrite (getv_vars _ _ _ Hv) in Hg. rewrite Hv in Hv1.
  assert (Hi : (i < length (vars x))%nat) by (eapply getv_some_lt; eauto).
  pose proof (getv_nth x _ Hi) as Ei. rewrite Hg in Ei.
  apply (op_step s s t x x1 fs opc); auto using rc_eq_refl; rewrite ?Hv1.
  - apply length_set_nth.
  - apply Forall_set_nth; auto. exact I.
  - apply not_cas_top_ok. cbn [frames with_frames]. destruct fs; cbn; [exact I|]. inversion Hnc; auto.
  - destruct fs; cbn; auto. inversion Hnc; auto.
  - lia.
  - intros o Ho. destruct (Hcr o Ho) as (C1 & C2). rewrite (sumZ_set_nth _ _ _ _ _ Ei). cbn [handle_strong]. lia.
Qed.

Ltac sop_take Hs Hv Hga D :=
  inversion Hs; subst; clear Hs;
  destruct D as (D1 & D2 & D3 & D4 & D5 & D6 & D7 & D8);
  eapply op_take; try eassumption; try reflexivity; try discriminate; auto.

Lemma sop_7 s t x x0 rec a : sop_goal s t x x0 rec [7; a].
Proof.
  intros s1 x1 fs o HI Hx Hf Hv Hok Hs. sop_start Hs Hok Hdf Hv [7; a].
  destruct (getv x0 (nat_of a)) eqn:Hga; try noop Hs.
  pose proof (dec_frames_gen (length (vars x)) (fst l) 1 (Nat.eqb (gdepth x0) 0) ltac:(lia)) as D.
  sop_take Hs Hv Hga D. intros o0 Ho0. rewrite D7, D8 by auto. cbn. unfold is_o. destruct (Nat.eqb (fst l) o0); auto.
Qed.
Lemma sop_8 s t x x0 rec a : sop_goal s t x x0 rec [8; a].
Proof.
  intros s1 x1 fs o HI Hx Hf Hv Hok Hs. sop_start Hs Hok Hdf Hv [8; a].
  destruct (getv x0 (nat_of a)) eqn:Hga; try noop Hs.
  pose proof (dec_frames_gen (length (vars x)) (fst l) 1 false ltac:(lia)) as D.
  sop_take Hs Hv Hga D. intros o0 Ho0. rewrite D7, D8 by auto. cbn. unfold is_o. destruct (Nat.eqb (fst l) o0); auto.
Qed.

Lemma nil_frames_gen n :
  Forall (frame_wf n) [] /\ Forall not_cas [] /\ Forall not_op [] /\ sumZ ndst [] = 0 /\
  (forall x, Forall (dst_none x) []) /\ (forall s, Forall (frame_st s) []) /\
  (forall o, o <> O -> sumZ (frame_strong o) [] = 0) /\ (forall o, sumZ (frame_attempt o) [] = 0).
Proof. repeat split; intros; try constructor. Qed.

Lemma sop_iter_drop s t x x0 rec opc i tmp :
  (forall o rem, getv x0 (nat_of i) = HIter o rem ->
     start_op s x0 rec [opc; i] = (s, setv x0 (nat_of i) HNone, (if 0 <? rem then dec_frames o rem tmp else []), [])) ->
  (forall h, getv x0 (nat_of i) = h -> (forall o rem, h <> HIter o rem) -> start_op s x0 rec [opc; i] = (s, x0, [], [])) ->
  sop_goal s t x x0 rec [opc; i].
Proof.
  intros H1 H2 s1 x1 fs o HI Hx Hf Hv Hok Hs.
  pose proof (Inv'_thr_wf _ _ _ HI Hx) as (Wv & _).
  destruct (getv x0 (nat_of i)) eqn:Hgi;
    try (rewrite (H2 _ eq_refl) in Hs by (intros; discriminate); noop Hs).
  rewrite (H1 _ _ eq_refl) in Hs. inversion Hs; subst s1 x1 fs o; clear Hs.
  assert (Hrem : 0 <= rem).
  { rewrite (getv_vars _ _ _ Hv) in Hgi.
    assert (Hi : (nat_of i < length (vars x))%nat) by (eapply getv_some_lt; eauto; discriminate).
    pose proof (getv_nth x _ Hi) as Ei. rewrite Hgi in Ei.
    rewrite Forall_forall in Wv; apply (Wv (HIter o0 rem)); eapply nth_error_In; eauto. }
  destruct (Z.ltb_spec 0 rem).
  - destruct (dec_frames_gen (length (vars x)) o0 rem tmp ltac:(lia)) as (D1 & D2 & D3 & D4 & D5 & D6 & D7 & D8).
    eapply op_take; try eassumption; try reflexivity; try discriminate; auto.
    intros o1 Ho1. rewrite D7, D8 by auto. cbn. auto.
  - destruct (nil_frames_gen (length (vars x))) as (D1 & D2 & D3 & D4 & D5 & D6 & D7 & D8).
    eapply op_take; try eassumption; try reflexivity; try discriminate; auto.
    intros o1 Ho1. rewrite D7, D8 by auto. cbn. destruct (Nat.eqb o0 o1); lia.
Qed.

Lemma sop_4 s t x x0 rec i : sop_goal s t x x0 rec [4; i].
Proof.
  apply sop_iter_drop with (tmp := false).
  - intros o rem H. unfold start_op. cbv beta iota zeta. cbn [dst_free negb]. rewrite H. reflexivity.
  - intros h H Hn. unfold start_op. cbv beta iota zeta. cbn [dst_free negb]. rewrite H.
    destruct h; auto. exfalso; eapply Hn; eauto.
Qed.
Lemma sop_5 s t x x0 rec i : sop_goal s t x x0 rec [5; i].
Proof.
  apply sop_iter_drop with (tmp := Nat.eqb (gdepth x0) 0).
  - intros o rem H. unfold start_op. cbv beta iota zeta. cbn [dst_free negb]. rewrite H. reflexivity.
  - intros h H Hn. unfold start_op. cbv beta iota zeta. cbn [dst_free negb]. rewrite H.
    destruct h; auto. exfalso; eapply Hn; eauto.
Qed.

Lemma sop_12 s t x x0 rec a : sop_goal s t x x0 rec [12; a].
Proof.
  intros s1 x1 fs o HI Hx Hf Hv Hok Hs. sop_start Hs Hok Hdf Hv [12; a].
  destruct (getv x0 (nat_of a)) eqn:Hga; try noop Hs. inversion Hs; subst s1 x1 fs o; clear Hs.
  eapply op_take; try eassumption; try reflexivity; try discriminate; auto;
    destruct (fst l); cbn [decw_frames]; intros; repeat constructor; rewrite ?sumZ_cons, ?sumZ_nil; cbn; lia.
Qed.

Lemma nth_set_nth_neq {A} (l : list A) i j a dflt : i <> j -> nth j (set_nth l i a) dflt = nth j l dflt.
Proof.
  revert i j; induction l as [|c l IH]; intros [|i] [|j] H; cbn; auto; try congruence.
Qed.
Lemma nth_set_nth_eq {A} (l : list A) i a dflt : (i < length l)%nat -> nth i (set_nth l i a) dflt = a.
Proof. revert i; induction l as [|c l IH]; intros [|i] H; cbn in *; auto; try lia. apply IH. lia. Qed.

(* store / swap: the Rc moves from slot src into the frame *)
Lemma op_swap s t x x0 x1 src l c d opc :
  Inv' s -> gett s t = Some x -> frames x = [FOp] -> vars x0 = vars x ->
  getv x0 src = HRc l -> vars x1 = set_nth (vars x0) src HNone ->
  match d with Some dd => (dd < length (vars x))%nat /\ (dd = src \/ getv x0 dd = HNone) | None => True end ->
  Step s (sett s t (with_frames x1 ([FSwap122 c l d] ++ op_tail opc))).
Proof.
  intros HI Hx Hf Hv Hg Hv1 Hd. pose proof (Inv'_thr_wf _ _ _ HI Hx) as (Wv & _).
  rewrite (getv_vars _ _ _ Hv) in Hg. rewrite Hv in Hv1.
  assert (Hi : (src < length (vars x))%nat) by (eapply getv_some_lt; eauto; discriminate).
  pose proof (getv_nth x _ Hi) as Ei. rewrite Hg in Ei.
  apply (op_step s s t x x1 _ opc); auto using rc_eq_refl; rewrite ?Hv1; try solve [repeat constructor].
  all: try match goal with
   | |- length _ = _ => apply length_set_nth
   | |- Forall handle_wf _ => apply Forall_set_nth; [auto|exact I]
   | |- Forall (frame_wf _) _ => repeat constructor; destruct d; cbn; auto; apply Hd
   | |- top_ok _ => apply not_cas_top_ok; cbn; exact I
   | |- sumZ ndst _ <= 1 => destruct d; ndst_goal
   | |- forall o, _ -> _ /\ _ => intros o Ho; rewrite (sumZ_set_nth _ _ _ _ _ Ei), !sumZ_cons, !sumZ_nil;
                                  cbn [handle_strong frame_strong frame_attempt]; lia
   end.
  repeat constructor. unfold dst_none. destruct d as [dd|]; cbn [frame_dst]; auto. unfold getv. rewrite Hv1.
  destruct Hd as (Hdd & [->|Hn]).
  - apply nth_set_nth_eq; auto.
  - destruct (Nat.eq_dec src dd) as [->|Hne]; [apply nth_set_nth_eq; auto|]. rewrite nth_set_nth_neq by auto.
    rewrite (getv_vars _ _ _ Hv) in Hn. exact Hn.
Qed.

Lemma sop_31 s t x x0 rec ck a b src : sop_goal s t x x0 rec [31; ck; a; b; src].
Proof.
  intros s1 x1 fs o HI Hx Hf Hv Hok Hs. sop_start Hs Hok Hdf Hv [31; ck; a; b; src].
  destruct (getv x0 (nat_of src)) eqn:Hga; try noop Hs. destruct (cell_ok x0 ck a); try noop Hs.
  destruct (store_ok _ _); try noop Hs. inversion Hs; subst s1 x1 fs o; clear Hs.
  eapply op_swap; eauto.
Qed.

Lemma sop_32 s t x x0 rec ck a b src d : sop_goal s t x x0 rec [32; ck; a; b; src; d].
Proof.
  intros s1 x1 fs o HI Hx Hf Hv Hok Hs. sop_start Hs Hok Hdf Hv [32; ck; a; b; src; d].
  destruct (getv x0 (nat_of src)) eqn:Hga; try noop Hs. destruct (cell_ok x0 ck a); try noop Hs.
  destruct (store_ok _ _); try noop Hs. inversion Hs; subst s1 x1 fs o; clear Hs.
  eapply op_swap; eauto. split; auto.
  apply orb_prop in Hdf as [E|E]; [left|right].
  - apply Z.eqb_eq in E. subst; auto.
  - apply is_none_true in E. auto.
Qed.

Lemma sop_33 s t x x0 rec ck a b e src d : sop_goal s t x x0 rec [33; ck; a; b; e; src; d].
Proof.
  intros s1 x1 fs o HI Hx Hf Hv Hok Hs. sop_start Hs Hok Hdf Hv [33; ck; a; b; e; src; d].
  pose proof (Inv'_thr_wf _ _ _ HI Hx) as (Wv & _).
  destruct (getv x0 (nat_of e)) eqn:Hge; try noop Hs. destruct (getv x0 (nat_of src)) as [|ld| | | |] eqn:Hgs; try noop Hs.
  destruct (cell_ok x0 ck a); try noop Hs. destruct (store_ok _ _); cbn [negb] in Hs; try noop Hs.
  rewrite (getv_vars _ _ _ Hv) in Hgs.
  assert (Hsrc : (nat_of src < length (vars x))%nat) by (eapply getv_some_lt; eauto; discriminate).
  assert (Hne : nat_of src <> nat_of d) by (intros E; rewrite E in Hgs; congruence).
  inversion Hs; subst s1 x1 fs o; clear Hs.
  apply (op_step s s t x x0 _ _); auto using rc_eq_refl; rewrite ?Hv; auto; try solve [destruct (fst ld); repeat constructor].
  all: try match goal with
   | |- Forall (frame_wf _) _ => destruct (fst ld); repeat constructor; auto
   | |- top_ok _ => unfold top_ok; destruct (fst ld) eqn:Hl; cbn [frames with_frames app]; rewrite ?(getv_vars _ _ _ Hv), Hgs; auto;
                    exists (snd ld); destruct ld; cbn in *; subst; reflexivity
   | |- Forall (dst_none _) _ => destruct (fst ld); repeat constructor; unfold dst_none; cbn [frame_dst]; rewrite (getv_vars _ _ _ Hv); auto
   | |- sumZ ndst _ <= 1 => destruct (fst ld); ndst_goal
   | |- forall o, _ -> _ /\ _ => intros o0 Ho0; destruct (fst ld); rewrite !sumZ_cons, !sumZ_nil; cbn [frame_strong frame_attempt]; lia
   end.
  unfold top_ok, getv; destruct (fst ld) eqn:Hl; cbn [frames with_frames app vars]; rewrite Hv;
    fold (getv x (nat_of src)); rewrite Hgs; [exists (snd ld); destruct ld; cbn in Hl; subst; reflexivity | reflexivity].
Qed.

Lemma length_set_range v d m h : length (set_range v d m h) = length v.
Proof. revert v d; induction m; intros; cbn [set_range]; auto. rewrite IHm, length_set_nth. auto. Qed.
Lemma Forall_set_range (P : handle -> Prop) v d m h : Forall P v -> P h -> Forall P (set_range v d m h).
Proof. revert v d; induction m; intros; cbn [set_range]; auto. apply IHm; auto. apply Forall_set_nth; auto. Qed.

Lemma range_free_spec x d m : range_free x d m = true -> forall j, (d <= j < d + m)%nat -> getv x j = HNone.
Proof.
  revert d; induction m; intros d H j Hj; [lia|]. cbn [range_free] in H. apply andb_prop in H as (H1 & H2).
  destruct (Nat.eq_dec j d) as [->|Hne]; [apply is_none_true; auto|]. apply (IHm (S d)); auto. lia.
Qed.

Lemma sumZ_set_range f v d m h : f HNone = 0 ->
  (forall j, (d <= j < d + m)%nat -> nth j v HNone = HNone) -> (d + m <= length v)%nat ->
  sumZ f (set_range v d m h) = sumZ f v + Z.of_nat m * f h.
Proof.
  intros H0. revert v d; induction m; intros v d Hfree Hlen; cbn [set_range]; [lia|].
  rewrite IHm.
  - assert (E : nth_error v d = Some HNone).
    { rewrite (nth_error_nth' v HNone) by lia. rewrite Hfree by lia. auto. }
    rewrite (sumZ_set_nth _ _ _ _ _ E), H0. lia.
  - intros j Hj. rewrite nth_set_nth_neq by lia. apply Hfree. lia.
  - rewrite length_set_nth. lia.
Qed.

Lemma sumZ_set_range0 f v d m h : f HNone = 0 -> f h = 0 ->
  (forall j, (d <= j < d + m)%nat -> nth j v HNone = HNone) ->
  sumZ f (set_range v d m h) = sumZ f v.
Proof.
  intros H0 Hh. revert v d; induction m; intros v d Hfree; cbn [set_range]; auto.
  rewrite IHm.
  - destruct (Nat.lt_ge_cases d (length v)).
    + assert (E : nth_error v d = Some HNone).
      { rewrite (nth_error_nth' v HNone) by lia. rewrite Hfree by lia. auto. }
      rewrite (sumZ_set_nth _ _ _ _ _ E), H0. lia.
    + rewrite set_nth_none by (apply nth_error_None; auto). auto.
  - intros j Hj. rewrite nth_set_nth_neq by lia. apply Hfree. lia.
Qed.

Lemma alloc_pair s n : alloc s n = (fst (alloc s n), snd (alloc s n)).
Proof. reflexivity. Qed.
Lemma is_o_new o o1 ts : is_o o (o1, ts) = if Nat.eqb o o1 then 1 else 0.
Proof. unfold is_o. cbn [fst]. rewrite Nat.eqb_sym. auto. Qed.

Lemma sop_0 s t x x0 rec d : sop_goal s t x x0 rec [0; d].
Proof.
  intros s1 x1 fs o HI Hx Hf Hv Hok Hs. sop_start Hs Hok Hdf Hv [0; d].
  pose proof (Inv'_thr_wf _ _ _ HI Hx) as (Wv & _).
  rewrite (alloc_pair s 1) in Hs. inversion Hs; subst s1 x1 fs o; clear Hs.
  apply (op_alloc s t x _ [] _ 1); auto; vars_norm; rewrite ?Hv; try solve [constructor]; try (unfold LIM; lia).
  - apply length_set_nth.
  - apply Forall_set_nth; auto. exact I.
  - rewrite sumZ_nil; lia.
  - intros o0 Ho0. rewrite sumZ_setv_none by auto. rewrite !sumZ_nil. cbn [handle_strong]. rewrite is_o_new.
    destruct (Nat.eqb o0 _); lia.
Qed.

Ltac alloc_goals tac_handle tac_credit :=
  try match goal with
  | |- length _ = _ => rewrite ?length_set_nth, ?length_set_range; auto
  | |- Forall handle_wf _ => first [apply Forall_set_nth | apply Forall_set_range]; [auto | tac_handle]
  | |- sumZ ndst _ <= 1 => first [rewrite sumZ_nil; lia | lia | ndst_goal]
  | |- forall o, _ -> _ /\ _ => tac_credit
  end.

Lemma sop_2 s t x x0 rec c d : sop_goal s t x x0 rec [2; c; d].
Proof.
  intros s1 x1 fs o HI Hx Hf Hv Hok Hs. sop_start Hs Hok Hdf Hv [2; c; d]. destruct Hok as (Hc & Hd).
  pose proof (Inv'_thr_wf _ _ _ HI Hx) as (Wv & _).
  destruct (Z.eqb_spec c 0) as [->|Hne].
  - rewrite (alloc_pair s 1) in Hs. inversion Hs; subst s1 x1 fs o; clear Hs.
    destruct (dec_frames_gen (length (vars x)) (snd (alloc s 1)) 1 (Nat.eqb (gdepth x0) 0) ltac:(lia)) as (D1 & D2 & D3 & D4 & D5 & D6 & D7 & D8).
    apply (op_alloc s t x _ _ _ 1); auto; vars_norm; rewrite ?Hv; try (unfold LIM; lia).
    all: alloc_goals ltac:(cbn; lia) ltac:(intros o0 Ho0; rewrite sumZ_setv_none by auto; rewrite D7, D8 by auto; cbn [handle_strong];
      rewrite (Nat.eqb_sym o0); destruct (Nat.eqb 0 o0), (Nat.eqb _ o0); lia).
  - rewrite (alloc_pair s c) in Hs. inversion Hs; subst s1 x1 fs o; clear Hs.
    apply (op_alloc s t x _ [] _ c); auto; vars_norm; rewrite ?Hv; try solve [constructor]; try lia.
    all: alloc_goals ltac:(cbn; lia) ltac:(intros o0 Ho0; rewrite sumZ_setv_none by auto; rewrite !sumZ_nil; cbn [handle_strong];
      rewrite (Nat.eqb_sym o0); destruct (Nat.eqb _ o0); lia).
Qed.

Lemma sop_1 s t x x0 rec n d : sop_goal s t x x0 rec [1; n; d].
Proof.
  intros s1 x1 fs o HI Hx Hf Hv Hok Hs. sop_open Hs. cbn [op_ok] in Hok. destruct Hok as (Hn & Hd).
  destruct (dst_free x0 [1; n; d]) eqn:Hdf; cbn [negb] in Hs; [|noop Hs]. cbn [dst_free] in Hdf.
  pose proof (range_free_spec _ _ _ Hdf) as Hfree.
  pose proof (Inv'_thr_wf _ _ _ HI Hx) as (Wv & _).
  destruct (Z.eqb_spec n 0) as [->|Hne].
  - rewrite (alloc_pair s 1) in Hs. inversion Hs; subst s1 x1 fs o; clear Hs.
    destruct (dec_frames_gen (length (vars x)) (snd (alloc s 1)) 1 (Nat.eqb (gdepth x0) 0) ltac:(lia)) as (D1 & D2 & D3 & D4 & D5 & D6 & D7 & D8).
    apply (op_alloc s t x _ _ _ 1); auto; rewrite ?Hv; try (unfold LIM; lia); try apply Wv.
    all: alloc_goals ltac:(cbn; lia) ltac:(intros o0 Ho0; rewrite D7, D8 by auto; rewrite (Nat.eqb_sym o0); destruct (Nat.eqb _ o0); lia).
  - rewrite (alloc_pair s n) in Hs. inversion Hs; subst s1 x1 fs o; clear Hs.
    apply (op_alloc s t x _ [] _ n); auto; cbn [vars with_vars]; rewrite ?Hv; try solve [constructor]; try lia.
    all: alloc_goals ltac:(exact I) ltac:(intros o0 Ho0; rewrite sumZ_set_range; auto;
      [ rewrite !sumZ_nil; cbn [handle_strong]; rewrite is_o_new; unfold nat_of; rewrite Z2Nat.id by lia; destruct (Nat.eqb o0 _); lia
      | intros j Hj; rewrite <- Hv; apply (Hfree j Hj) ]).
Qed.

Lemma sop_10 s t x x0 rec a n d : sop_goal s t x x0 rec [10; a; n; d].
Proof.
  intros s1 x1 fs o HI Hx Hf Hv Hok Hs. sop_open Hs. cbn [op_ok] in Hok.
  destruct (dst_free x0 [10; a; n; d]) eqn:Hdf; cbn [negb] in Hs; [|noop Hs]. cbn [dst_free] in Hdf.
  pose proof (range_free_spec _ _ _ Hdf) as Hfree.
  pose proof (Inv'_thr_wf _ _ _ HI Hx) as (Wv & _).
  destruct (getv x0 (nat_of a)) eqn:Hga; try noop Hs. inversion Hs; subst s1 x1 fs o; clear Hs.
  apply (op_step s s t x _ _ _); auto using rc_eq_refl; cbn [vars with_vars]; rewrite ?Hv;
    try solve [destruct (fst l); repeat constructor; auto].
  all: try match goal with
   | |- length _ = _ => apply length_set_range
   | |- Forall handle_wf _ => apply Forall_set_range; [auto|exact I]
   | |- top_ok _ => apply not_cas_top_ok; destruct (fst l); cbn; exact I
   | |- sumZ ndst _ <= 1 => destruct (fst l); ndst_goal
   | |- forall o, _ -> _ /\ _ => intros o0 Ho0; rewrite sumZ_set_range0; auto;
        [ destruct (fst l); rewrite ?sumZ_cons, ?sumZ_nil; cbn [frame_strong frame_attempt]; lia
        | intros j Hj; rewrite <- Hv; apply (Hfree j Hj) ]
   end.
  destruct (fst l); repeat constructor; cbn [frame_wf]; lia.
Qed.

Lemma start_op_inv s t x x0 rec op : sop_goal s t x x0 rec op.
Proof.
  destruct (known_shape op) eqn:Hk.
  - apply known_shape_true in Hk. destruct Hk;
      eauto using sop_0, sop_1, sop_2, sop_3, sop_4, sop_5, sop_6, sop_7, sop_8, sop_9, sop_10, sop_11, sop_12, sop_13,
        sop_14, sop_15, sop_16, sop_17, sop_18, sop_19, sop_20, sop_21, sop_24, sop_25, sop_30, sop_31, sop_32, sop_33.
  - intros s1 x1 fs o HI Hx Hf Hv Hok Hs. rewrite start_op_unknown in Hs by auto. noop Hs.
Qed.

Lemma micro_inv_FOp s t rec s' obs x k :
  Inv' s -> bounded s -> gett s t = Some x -> frames x = FOp :: k ->
  micro s t rec = Some (s', obs) -> Step s s'.
Proof.
  intros HI HB Hx Hf Hm. pose proof (Inv'_thr_wf _ _ _ HI Hx) as Wx.
  pose proof (FOp_bottom _ _ Wx Hf) as ->. open_micro Hm Hx Hf.
  destruct (prog x) as [|op rest] eqn:Hp.
  - inversion Hm; subst s' obs; clear Hm. fr_only s x (@nil frame); auto using rc_eq_refl.
  - match type of Hm with context [start_op s ?X0 rec op] => set (x0 := X0) in * end.
    destruct (start_op s x0 rec op) as [[[s1 x1] fs] o] eqn:Hs.
    inversion Hm; subst s' obs; clear Hm.
    change (FMay :: FOpEnd (hd 0 op) :: [FOp]) with (op_tail (hd 0 op)).
    eapply (start_op_inv s t x x0 rec op); eauto.
    destruct HB as (_ & _ & HP). specialize (HP _ _ Hx). rewrite Hp in HP. inversion HP; auto.
Qed.

(* ---- all frames *)
Lemma micro_top s t rec s' o : micro s t rec = Some (s', o) -> exists x f k, gett s t = Some x /\ frames x = f :: k.
Proof.
  unfold micro. destruct (gett s t) as [x|]; [|discriminate]. destruct (frames x) as [|f k] eqn:E; [discriminate|]. intros _. exists x, f, k. auto.
Qed.

(* the strong-side invariant is preserved by every micro transition.  Hypotheses: [tde_ok s] comes from the
   weak-side invariant; [counted_ok s] (Snapshot::counted never meets a destructed object); [bounded] on both
   states (field widths on s, the result of a weak decrement and err = 0 on s') *)
Theorem micro_inv_strong s t rec s' o :
  Inv' s -> tde_ok s -> counted_ok s -> bounded s -> bounded s' -> micro s t rec = Some (s', o) -> Step s s'.
Proof.
  intros HI HT HC HB HB' Hm. destruct (micro_top _ _ _ _ _ Hm) as (x & f & k & Hx & Hf).
  destruct f.
  - eapply micro_inv_FStart; eauto.
  - eapply micro_inv_FOp; eauto.
  - eapply micro_inv_FOpEnd; eauto.
  - eapply micro_inv_FRet; eauto.
  - eapply micro_inv_FMay; eauto.
  - eapply micro_inv_FAwait; eauto.
  - eapply micro_inv_FEndClosure; eauto.
  - eapply micro_inv_FUnpinTmp; eauto.
  - eapply micro_inv_FIncS100; eauto.
  - eapply micro_inv_FIncS101; eauto.
  - eapply micro_inv_FDecS110; eauto.
  - eapply micro_inv_FDecS111; eauto.
  - eapply micro_inv_FDecS112; eauto.
  - eapply micro_inv_FTD113; eauto.
  - eapply micro_inv_FTD114; eauto.
  - eapply micro_inv_FDispEnter; eauto.
  - eapply micro_inv_FDisp115; eauto.
  - eapply micro_inv_FDisp116; eauto.
  - eapply micro_inv_FDisp130; eauto.
  - eapply micro_inv_FDispDo; eauto.
  - eapply micro_inv_FDisp117; eauto.
  - eapply micro_inv_FKids; eauto.
  - eapply micro_inv_FKid118; eauto.
  - eapply micro_inv_FKid119; eauto.
  - eapply micro_inv_FDecW107; eauto.
  - eapply micro_inv_FTDe102; eauto.
  - eapply micro_inv_FIncW103; eauto.
  - eapply micro_inv_FIncW104; eauto.
  - eapply micro_inv_FIncW105; eauto.
  - eapply micro_inv_FIncW106; eauto.
  - eapply micro_inv_FIsND108; eauto.
  - eapply micro_inv_FIsND109; eauto.
  - eapply micro_inv_FLoad121; eauto.
  - eapply micro_inv_FSwap122; eauto.
  - eapply micro_inv_FSwap120; eauto.
  - eapply micro_inv_FCas120; eauto.
  - eapply micro_inv_FCas123; eauto.
Qed.
Print Assumptions micro_inv_strong.

(* ---- initial states *)
Theorem Inv_fresh s : fresh_start s -> Inv' s.
Proof.
  intros (Ho & Hp & Hc & Ht). rewrite Forall_forall in Hc, Ht.
  assert (Hg : forall o, geto s o = None) by (intros [|i]; cbn; auto; rewrite Ho; destruct i; auto).
  assert (Hthr : forall x, In x (threads s) -> Forall (fun h => h = HNone) (vars x) /\ frames x = [FStart; FOp]).
  { intros x Hx. destruct (Ht x Hx) as (A & B & _). auto. }
  split; [|split].
  - intros o ob H. rewrite Hg in H. discriminate.
  - intros o Hno _. split.
    + unfold owners. rewrite Ho, sumZ_nil.
      rewrite (sumZ_zero (thr_strong o) (threads s)), (sumZ_zero (is_o o) (cells s)); [lia| |].
      * intros l Hl. apply is_o_neq. rewrite (Hc l Hl). auto.
      * intros x Hx. destruct (Hthr x Hx) as (A & B). unfold thr_strong. rewrite B.
        rewrite (sumZ_zero (handle_strong o) (vars x)); [rewrite !sumZ_cons, sumZ_nil; cbn; lia|].
        intros h Hh. rewrite Forall_forall in A. rewrite (A h Hh). reflexivity.
    + unfold attempts. rewrite Hp, sumZ_nil. rewrite sumZ_zero; [lia|].
      intros x Hx. destruct (Hthr x Hx) as (A & B). rewrite B, !sumZ_cons, sumZ_nil. cbn. lia.
  - intros t x Hx. apply nth_error_In in Hx. destruct (Hthr x Hx) as (A & B). split.
    + unfold thr_wf, top_ok. rewrite B. repeat split; try solve [repeat constructor].
      * eapply Forall_impl; [|exact A]. intros h ->. exact I.
      * rewrite !sumZ_cons, sumZ_nil. cbn. lia.
    + rewrite B. repeat constructor.
Qed.

(* ---- runs *)
Theorem micro_inv s t rec s' o :
  Inv' s -> tde_ok s -> counted_ok s -> bounded s -> bounded s' -> micro s t rec = Some (s', o) -> Inv' s'.
Proof. intros. eapply micro_inv_strong; eauto. Qed.

Theorem micro_flags_mono s t rec s' o :
  Inv' s -> tde_ok s -> counted_ok s -> bounded s -> bounded s' -> micro s t rec = Some (s', o) -> flags_mono s s'.
Proof. intros. eapply micro_inv_strong; eauto. Qed.

Lemma bounded_run_head s sched : bounded_run s sched -> bounded s.
Proof. destruct sched as [|[t rec] r]; cbn; tauto. Qed.

(* the invariant along runs; [tde_run] is discharged by the weak-side invariant (RcWeakP.v) *)
Theorem mrun_inv_tde sched : forall s0, Inv' s0 -> bounded_run s0 sched -> live_counted s0 sched -> tde_run s0 sched ->
  Inv' (mrun s0 sched).
Proof.
  induction sched as [|[t rec] r IH]; intros s0 HI HB HC HT; cbn [mrun]; auto.
  cbn [bounded_run live_counted tde_run] in HB, HC, HT. destruct HB as (HB0 & HB), HC as (HC0 & HC), HT as (HT0 & HT).
  destruct (micro s0 t rec) as [[s' o]|] eqn:Hm; [|apply IH; auto].
  apply IH; auto. eapply micro_inv; eauto. eapply bounded_run_head; eauto.
Qed.

(* ---- strong-side theorems under tde_run *)
Definition run_hyps (s0 : state) (sched : list (nat * list Z)) : Prop :=
  fresh_start s0 /\ bounded_run s0 sched /\ live_counted s0 sched /\ tde_run s0 sched.

Lemma run_Inv s0 sched : run_hyps s0 sched -> Inv' (mrun s0 sched).
Proof. intros (H1 & H2 & H3 & H4). apply mrun_inv_tde; auto. apply Inv_fresh; auto. Qed.

Theorem C01_tde s0 sched : run_hyps s0 sched ->
  let s := mrun s0 sched in
  forall o ob, geto s o = Some ob -> 0 < owners s o -> dropped ob = false /\ freed ob = false /\ destructed (word ob) = false.
Proof.
  intros H s o ob Hg Ho. pose proof (run_Inv _ _ H) as (HA & _). pose proof (HA _ _ Hg) as Hinv.
  destruct (destructed (word ob)) eqn:Hd.
  - destruct (j_dead _ _ _ Hinv Hd). fold s in H0. lia.
  - destruct (live_facts _ _ _ Hinv Hd) as (_ & _ & _ & Jd & Jf & _). auto.
Qed.

Theorem C10_tde s0 sched : run_hyps s0 sched ->
  let s := mrun s0 sched in
  forall o ob, geto s o = Some ob -> destructed (word ob) = false ->
    strong (word ob) = owners s o + b2z (tok ob) /\ (owners s o = 0 -> tok ob = false -> attempts s o = 1).
Proof.
  intros H s o ob Hg Hd. pose proof (run_Inv _ _ H) as (HA & _). pose proof (HA _ _ Hg) as Hinv.
  destruct (live_facts _ _ _ Hinv Hd) as (J1 & J2 & J3 & _). fold s in J1, J2, J3. split; auto.
  intros Ho Ht. apply J3. left. rewrite J1, Ho, Ht. reflexivity.
Qed.

Theorem C05_upgrade_tde s0 sched t rec s' obs x o c k : run_hyps s0 sched ->
  let s := mrun s0 sched in
  gett s t = Some x -> (frames x = FIncS100 o c :: k \/ frames x = FIncS101 o c :: k) ->
  micro s t rec = Some (s', obs) ->
  forall ob x', geto s o = Some ob -> gett s' t = Some x' ->
    (frames x' = FRet c false :: k <-> destructed (word ob) = true) /\
    (0 < owners s o -> frames x = FIncS100 o c :: k -> frames x' = FRet c true :: k).
Proof.
  intros H s Hx Hf Hm ob x' Hg Hx'. pose proof (run_Inv _ _ H) as (HA & _). fold s in HA. pose proof (HA _ _ Hg) as Hinv.
  assert (Hown : 0 < owners s o -> destructed (word ob) = false /\ (strong (word ob) =? 0) = false).
  { intros Ho. destruct (destructed (word ob)) eqn:Hd; [destruct (j_dead _ _ _ Hinv Hd); lia|]. split; auto.
    destruct (live_facts _ _ _ Hinv Hd) as (J1 & _). pose proof (b2z_range (tok ob)). apply Z.eqb_neq. lia. }
  assert (Hgx : forall X Y, gett (sett (seto s o X) t Y) t = Some Y).
  { intros X Y. apply (gett_sett_eq _ _ x). rewrite gett_seto. auto. }
  destruct Hf as [Hf|Hf]; open_micro Hm Hx Hf; rewrite Hg in Hm;
    (destruct (destructed (word ob)) eqn:Hd; [|destruct (strong (word ob) =? 0) eqn:Hz]);
    inversion Hm; subst s' obs; clear Hm; rewrite Hgx in Hx'; inversion Hx'; subst x'; cbn [frames with_frames];
    (split; [split; intros E; try discriminate E; try congruence; auto|]);
    intros Ho E; try discriminate E; destruct (Hown Ho); congruence.
Qed.

Theorem C05_monotone_tde s0 sched t rec s' obs : run_hyps s0 sched ->
  let s := mrun s0 sched in
  micro s t rec = Some (s', obs) -> bounded s' ->
  forall o ob ob', geto s o = Some ob -> geto s' o = Some ob' -> destructed (word ob) = true -> destructed (word ob') = true.
Proof.
  intros H s Hm HB' o ob ob' Hg Hg' Hd. pose proof (run_Inv _ _ H) as HI. fold s in HI.
  destruct H as (_ & H2 & H3 & H4).
  assert (Hb : bounded s /\ counted_ok s /\ tde_ok s).
  { clear - H2 H3 H4. unfold s. clear s. revert s0 H2 H3 H4. induction sched as [|[t rec] r IH]; intros s0 H2 H3 H4; cbn [mrun].
    - cbn in *. tauto.
    - cbn [bounded_run live_counted tde_run] in *. destruct (micro s0 t rec) as [[s1 o]|]; apply IH; tauto. }
  destruct Hb as (HB & HC & HT).
  destruct (micro_flags_mono _ _ _ _ _ HI HT HC HB HB' Hm o ob Hg) as (ob1 & Hg1 & M & _).
  rewrite Hg' in Hg1. inversion Hg1; subst. auto.
Qed.

(* ---- which transitions change the payload flags (for C04) *)
Definition flags_eq (s s' : state) : Prop :=
  forall o ob, geto s o = Some ob -> exists ob', geto s' o = Some ob' /\ dropped ob' = dropped ob /\ freed ob' = freed ob.

Lemma flags_eq_geto s s' : (forall o, geto s' o = geto s o) -> flags_eq s s'.
Proof. intros H o ob Hg. exists ob. rewrite H. auto. Qed.
Lemma flags_eq_refl s : flags_eq s s.
Proof. apply flags_eq_geto. auto. Qed.
Lemma flags_eq_trans a b c : flags_eq a b -> flags_eq b c -> flags_eq a c.
Proof.
  intros H1 H2 o ob Hg. destruct (H1 _ _ Hg) as (ob1 & Hg1 & E1 & E2). destruct (H2 _ _ Hg1) as (ob2 & Hg2 & E3 & E4).
  exists ob2. repeat split; auto; congruence.
Qed.
Lemma flags_eq_sett s S t X : flags_eq s S -> flags_eq s (sett S t X).
Proof. intros H. eapply flags_eq_trans; eauto. apply flags_eq_geto. auto. Qed.
Lemma flags_eq_defer s S k o : flags_eq s S -> flags_eq s (defer S k o).
Proof. intros H. eapply flags_eq_trans; eauto. apply flags_eq_geto. auto. Qed.
Lemma flags_eq_rc s S S' : rc_eq S S' -> flags_eq s S -> flags_eq s S'.
Proof. intros R H. eapply flags_eq_trans; eauto. apply flags_eq_geto. intros; apply geto_rc_eq; auto. Qed.
Lemma flags_eq_set_pending s S p : flags_eq s S -> flags_eq s (set_pending S p).
Proof. intros H. eapply flags_eq_trans; eauto. apply flags_eq_geto. auto. Qed.
Lemma flags_eq_seto s i ob X : geto s i = Some ob -> dropped X = dropped ob -> freed X = freed ob -> flags_eq s (seto s i X).
Proof.
  intros Hg E1 E2 o ob0 Hg0. destruct (Nat.eq_dec i o) as [<-|Hne].
  - rewrite (geto_seto_eq _ _ _ _ Hg). exists X. rewrite Hg in Hg0. inversion Hg0; subst. auto.
  - rewrite geto_seto_neq by auto. exists ob0. auto.
Qed.
Lemma flags_eq_set_cell s S c l : flags_eq s S -> flags_eq s (set_cell S c l).
Proof.
  intros H. eapply flags_eq_trans; eauto. unfold set_cell. destruct (c <? 1000).
  - apply flags_eq_geto. auto.
  - destruct (geto S _) eqn:Hg; [|apply flags_eq_refl]. eapply flags_eq_seto; eauto.
Qed.
Lemma flags_eq_alloc s n : flags_eq s (fst (alloc s n)).
Proof.
  intros o ob Hg. exists ob. split; auto. rewrite geto_alloc_old; auto. intros ->. rewrite geto_alloc_none in Hg. discriminate.
Qed.

Ltac destruct_matches :=
  repeat match goal with
  | |- context [match ?e with _ => _ end] =>
      lazymatch e with
      | alloc _ _ => rewrite (alloc_pair _ _)
      | _ => destruct e
      end
  end.
Ltac flags_leaf :=
  cbn [fst snd];
  first [ apply flags_eq_refl | apply flags_eq_alloc
        | eapply flags_eq_rc; [apply rc_eq_see_epoch | apply flags_eq_refl]
        | eapply flags_eq_rc; [apply rc_eq_set_err | apply flags_eq_refl] ].

Lemma start_op_flags s x rec op : flags_eq s (fst (fst (fst (start_op s x rec op)))).
Proof.
  destruct (known_shape op) eqn:Hk.
  - apply known_shape_true in Hk. destruct Hk; unfold start_op; cbv beta iota zeta; destruct_matches; flags_leaf.
  - rewrite start_op_unknown by auto. flags_leaf.
Qed.

Ltac destruct_in Hm :=
  repeat match type of Hm with
  | context [match ?e with _ => _ end] => destruct e eqn:?
  end.
Ltac flags_solve :=
  repeat first
    [ apply flags_eq_refl
    | apply flags_eq_sett | apply flags_eq_defer | apply flags_eq_set_cell | apply flags_eq_set_pending
    | eapply flags_eq_seto; [eassumption | reflexivity | reflexivity]
    | eapply flags_eq_rc; [apply rc_eq_see_epoch|]
    | eapply flags_eq_rc; [apply rc_eq_set_err|] ].

Definition flag_frame (f : frame) : bool :=
  match f with FDispDo _ _ _ _ | FDisp117 _ _ _ _ _ | FTDe102 _ => true | _ => false end.

Lemma micro_flags_eq s t rec s' obs x f k :
  gett s t = Some x -> frames x = f :: k -> micro s t rec = Some (s', obs) -> flag_frame f = false -> flags_eq s s'.
Proof.
  intros Hx Hf Hm Hff. open_micro Hm Hx Hf.
  destruct f; try discriminate Hff; clear Hff.
  all: try (destruct_in Hm; inversion Hm; subst s' obs; clear Hm; flags_solve; fail).
  destruct (prog x) as [|op rest]; [inversion Hm; subst; flags_solve|].
  match type of Hm with context [start_op s ?X0 rec op] => pose proof (start_op_flags s X0 rec op) as Hfl;
    destruct (start_op s X0 rec op) as [[[s1 x1] fs] o] end.
  cbn [fst] in Hfl. inversion Hm; subst s' obs. apply flags_eq_sett; auto.
Qed.

(* ---- C04 *)
Lemma run_facts s0 sched : run_hyps s0 sched ->
  let s := mrun s0 sched in Inv' s /\ bounded s /\ counted_ok s /\ tde_ok s.
Proof.
  intros H. split; [apply run_Inv; auto|]. destruct H as (_ & H2 & H3 & H4).
  revert s0 H2 H3 H4. induction sched as [|[t rec] r IH]; intros s0 H2 H3 H4; cbn [mrun].
  - cbn in *. tauto.
  - cbn [bounded_run live_counted tde_run] in *. destruct (micro s0 t rec) as [[s1 o]|]; apply IH; tauto.
Qed.

Definition C04_concl (ob ob' : obj) (obs : list Z) : Prop :=
  (dropped ob = true -> dropped ob' = true) /\ (freed ob = true -> freed ob' = true) /\
  (dropped ob = false -> dropped ob' = true -> In 1102 obs /\ destructed (word ob) = true /\ freed ob = false) /\
  (freed ob = false -> freed ob' = true -> In 1100 obs /\ dropped ob = true).

Lemma C04_same ob ob' obs : dropped ob' = dropped ob -> freed ob' = freed ob -> C04_concl ob ob' obs.
Proof. intros E1 E2. unfold C04_concl. rewrite E1, E2. repeat split; auto; congruence. Qed.

Lemma geto_sett_seto s i X t Y o : geto (sett (seto s i X) t Y) o = geto (seto s i X) o.
Proof. reflexivity. Qed.

Theorem C04_tde s0 sched t rec s' obs : run_hyps s0 sched ->
  let s := mrun s0 sched in
  micro s t rec = Some (s', obs) ->
  forall o ob ob', geto s o = Some ob -> geto s' o = Some ob' -> C04_concl ob ob' obs.
Proof.
  intros H s Hm o ob ob' Hg Hg'. destruct (run_facts _ _ H) as (HI & HB & HC & HT). fold s in HI, HB, HC, HT.
  destruct (micro_top _ _ _ _ _ Hm) as (x & f & k & Hx & Hf).
  destruct (flag_frame f) eqn:Hff.
  2:{ destruct (micro_flags_eq _ _ _ _ _ _ _ _ Hx Hf Hm Hff o ob Hg) as (ob1 & Hg1 & E1 & E2).
      rewrite Hg' in Hg1. inversion Hg1; subst. apply C04_same; auto. }
  pose proof HI as (HA & _ & HTH). destruct (HTH _ _ Hx) as (_ & Sx). rewrite Hf in Sx. apply Forall_inv in Sx.
  pose proof (HA _ _ Hg) as Hinv.
  open_micro Hm Hx Hf. destruct f; try discriminate Hff; clear Hff; cbn in Sx.
  - (* FDispDo *) destruct Sx as (obT & HgT & HdT). rewrite HgT in Hm. inversion Hm; subst s' obs; clear Hm.
    rewrite geto_sett_seto in Hg'. destruct (Nat.eq_dec o0 o) as [->|Hne].
    + rewrite (geto_seto_eq _ _ _ _ HgT) in Hg'. inversion Hg'; subst ob'. rewrite Hg in HgT. inversion HgT; subst obT.
      unfold C04_concl. cbn [dropped freed]. repeat split; auto; try (cbn; tauto); try congruence.
      destruct (freed ob) eqn:E; auto. pose proof (j_freed _ _ _ Hinv E). congruence.
    + rewrite geto_seto_neq in Hg' by auto. fold s in Hg'. rewrite Hg in Hg'. inversion Hg'; subst. apply C04_same; auto.
  - (* FDisp117 *) destruct Sx as (obT & HgT & HdT). rewrite HgT in Hm.
    destruct (weaked (word obT)); inversion Hm; subst s' obs; clear Hm.
    + change (geto s o = Some ob') in Hg'. rewrite Hg in Hg'. inversion Hg'; subst. apply C04_same; auto.
    + rewrite geto_sett_seto in Hg'. destruct (Nat.eq_dec o0 o) as [->|Hne].
      * rewrite (geto_seto_eq _ _ _ _ HgT) in Hg'. inversion Hg'; subst ob'. rewrite Hg in HgT. inversion HgT; subst obT.
        unfold C04_concl. cbn [dropped freed]. repeat split; auto; try (cbn; tauto); congruence.
      * rewrite geto_seto_neq in Hg' by auto. fold s in Hg'. rewrite Hg in Hg'. inversion Hg'; subst. apply C04_same; auto.
  - (* FTDe102 *) destruct (geto s o0) as [obT|] eqn:HgT.
    2:{ inversion Hm; subst s' obs. change (geto s o = Some ob') in Hg'. rewrite Hg in Hg'. inversion Hg'; subst. apply C04_same; auto. }
    destruct (Z.ltb_spec 0 (weak (word obT))); inversion Hm; subst s' obs; clear Hm.
    + change (geto s o = Some ob') in Hg'. rewrite Hg in Hg'. inversion Hg'; subst. apply C04_same; auto.
    + rewrite geto_sett_seto in Hg'. destruct (Nat.eq_dec o0 o) as [->|Hne].
      * rewrite (geto_seto_eq _ _ _ _ HgT) in Hg'. inversion Hg'; subst ob'. rewrite Hg in HgT. inversion HgT; subst obT.
        destruct (bounded_word _ _ _ HB Hg) as (Hw & _). pose proof (weak_range _ Hw).
        unfold C04_concl. cbn [dropped freed]. repeat split; auto; try (cbn; tauto); try congruence.
        apply (HT _ _ Hg); auto. lia.
      * rewrite geto_seto_neq in Hg' by auto. fold s in Hg'. rewrite Hg in Hg'. inversion Hg'; subst. apply C04_same; auto.
Qed.

(* ---- executable checkers *)
(* ---- executable checkers for the run hypotheses (used for the non-vacuity examples) *)
Definition op_ok_b (n : nat) (op : list Z) : bool :=
  match op with
  | [0; d] => Nat.ltb (nat_of d) n
  | [1; c; d] => (0 <=? c) && (c <? LIM) && Nat.leb (nat_of d + nat_of c) n
  | [2; c; d] => (0 <=? c) && (c <? LIM) && Nat.ltb (nat_of d) n
  | [_; _; d] => Nat.ltb (nat_of d) n
  | [10; _; c; d] => (0 <? c) && (c <? LIM) && Nat.leb (nat_of d + nat_of c) n
  | [32; _; _; _; _; d] => Nat.ltb (nat_of d) n
  | [33; _; _; _; _; _; d] => Nat.ltb (nat_of d) n
  | _ => true
  end.
Lemma op_ok_b_ok n op : op_ok_b n op = true -> op_ok n op.
Proof.
  intros H. exhaust_op op; cbn [op_ok_b op_ok] in *; auto;
    repeat match goal with H : _ && _ = true |- _ => apply andb_prop in H as [? ?] end;
    repeat split; try (apply Nat.ltb_lt; assumption); try (apply Nat.leb_le; assumption); lia.
Qed.

Definition obj_bounded_b (ob : obj) : bool :=
  (0 <=? word ob) && (word ob <? 2 ^ 64) && (strong (word ob) <? LIM) && (weak (word ob) <? LIM).
Definition bounded_b (s : state) : bool :=
  forallb obj_bounded_b (objs s) && (err s =? 0) &&
  forallb (fun x => forallb (op_ok_b (length (vars x))) (prog x)) (threads s).
Lemma geto_In s o ob : geto s o = Some ob -> In ob (objs s).
Proof. destruct o; cbn; [discriminate|]. apply nth_error_In. Qed.
Lemma bounded_b_ok s : bounded_b s = true -> bounded s.
Proof.
  unfold bounded_b. intros H. apply andb_prop in H as (H & H3). apply andb_prop in H as (H1 & H2).
  rewrite forallb_forall in H1, H3. split; [|split].
  - intros o ob Hg. specialize (H1 _ (geto_In _ _ _ Hg)). unfold obj_bounded_b in H1.
    repeat match goal with H : _ && _ = true |- _ => apply andb_prop in H as [? ?] end. lia.
  - apply Z.eqb_eq; auto.
  - intros t x Hx. apply nth_error_In in Hx. specialize (H3 _ Hx). rewrite forallb_forall in H3.
    apply Forall_forall. intros op Hop. apply op_ok_b_ok; auto.
Qed.

Definition scounted_ok_b (s : state) : bool :=
  forallb (fun x => match frames x with
                    | FIncS100 o c :: _ | FIncS101 o c :: _ =>
                        negb (cign c) || match geto s o with Some ob => negb (destructed (word ob)) | None => true end
                    | _ => true
                    end) (threads s).
Lemma scounted_ok_b_ok s : scounted_ok_b s = true -> scounted_ok s.
Proof.
  unfold scounted_ok_b. intros H t x o c k ob Hx Hf Hc Hg. rewrite forallb_forall in H.
  specialize (H _ (nth_error_In _ _ Hx)). destruct Hf as [Hf|Hf]; rewrite Hf, Hc, Hg in H; cbn in H;
    destruct (destructed (word ob)); auto; discriminate.
Qed.
(* sufficient: no thread is between sites 105 and 106 at all *)
Definition is_incw106 (f : frame) : bool := match f with FIncW106 _ => true | _ => false end.
Definition wcounted_ok_b (s : state) : bool :=
  forallb (fun x => forallb (fun f => negb (is_incw106 f)) (frames x)) (threads s).
Lemma wcounted_ok_b_ok s : wcounted_ok_b s = true -> wcounted_ok s.
Proof.
  unfold wcounted_ok_b. intros H t x o tmp k t' x' Hx Hf Hx' Hin. rewrite forallb_forall in H.
  specialize (H _ (nth_error_In _ _ Hx')). rewrite forallb_forall in H. specialize (H _ Hin). discriminate.
Qed.
Definition wlive_ok_b (s : state) : bool :=
  forallb (fun x => match frames x with
                    | f :: _ => match incw_obj f with
                                | Some o => match geto s o with Some ob => negb (freed ob) | None => true end
                                | None => true
                                end
                    | [] => true
                    end) (threads s).
Lemma wlive_ok_b_ok s : wlive_ok_b s = true -> wlive_ok s.
Proof.
  unfold wlive_ok_b. intros H t x f k o ob Hx Hf Hi Hg. rewrite forallb_forall in H.
  specialize (H _ (nth_error_In _ _ Hx)). rewrite Hf, Hi, Hg in H. destruct (freed ob); auto; discriminate.
Qed.
Definition counted_ok_b (s : state) : bool := scounted_ok_b s && wcounted_ok_b s && wlive_ok_b s.
Lemma counted_ok_b_ok s : counted_ok_b s = true -> counted_ok s.
Proof.
  unfold counted_ok_b. intros H. apply andb_prop in H as (H & H3). apply andb_prop in H as (H1 & H2).
  split; [apply scounted_ok_b_ok|split; [apply wcounted_ok_b_ok|apply wlive_ok_b_ok]]; auto.
Qed.

Definition tde_ok_b (s : state) : bool :=
  forallb (fun ob => negb (weak (word ob) =? 0) || freed ob || dropped ob) (objs s).
Lemma tde_ok_b_ok s : tde_ok_b s = true -> tde_ok s.
Proof.
  unfold tde_ok_b. intros H o ob Hg Hw Hf. rewrite forallb_forall in H. specialize (H _ (geto_In _ _ _ Hg)).
  rewrite Hw, Hf in H. cbn in H. auto.
Qed.

Fixpoint hyps_run_b (s : state) (sched : list (nat * list Z)) : bool :=
  bounded_b s && counted_ok_b s && tde_ok_b s &&
  match sched with
  | [] => true
  | (t, rec) :: r => match micro s t rec with Some (s', _) => hyps_run_b s' r | None => hyps_run_b s r end
  end.
Lemma hyps_run_b_ok sched : forall s, hyps_run_b s sched = true -> bounded_run s sched /\ live_counted s sched /\ tde_run s sched.
Proof.
  induction sched as [|[t rec] r IH]; intros s H; cbn [hyps_run_b bounded_run live_counted tde_run] in *;
    apply andb_prop in H as (H & H4); apply andb_prop in H as (H & H3); apply andb_prop in H as (H1 & H2);
    pose proof (bounded_b_ok _ H1); pose proof (counted_ok_b_ok _ H2); pose proof (tde_ok_b_ok _ H3).
  - tauto.
  - destruct (micro s t rec) as [[s' o]|]; destruct (IH _ H4) as (A & B & C); tauto.
Qed.

(* ---- examples *)
Definition ex_thr (p : list (list Z)) : thr :=
  {| vars := repeat HNone 4; gdepth := 0; ann := 0; serial := 0; inclosure := false;
     frames := [FStart; FOp]; prog := p; res := 0; resw := 0 |}.
Definition ex_s0 : state :=
  {| G := 0; objs := []; cells := [null_link];
     threads := [ex_thr [[0; 0]; [6; 0; 1]; [31; 0; 0; 0; 1]; [9; 0; 2]; [7; 0]]; ex_thr [[20]; [30; 0; 0; 0; 0]; [15; 0; 1]; [7; 1]; [21]]];
     pending := []; err := 0 |}.
Definition ex_rec : list Z := [2000; 0; 0].
Definition ex_sched (n m : nat) : list (nat * list Z) := repeat (O, ex_rec) n ++ repeat (1%nat, ex_rec) m.
Definition ex_view (s : state) := (map (fun ob => (strong (word ob), weak (word ob), destructed (word ob), tok ob)) (objs s), owners s 1, attempts s 1, err s, map (fun x => length (frames x)) (threads s), map pk (pending s)).

(* the hypotheses of the theorems hold on a non-trivial run: thread 0 creates an object, clones it, stores one Rc
   into a root cell and downgrades; thread 1 pins, loads the cell and is about to run Snapshot::counted *)
Example ex_hyps : run_hyps ex_s0 (ex_sched 20 9).
Proof.
  split.
  - unfold fresh_start. cbn. repeat split; repeat constructor.
  - apply hyps_run_b_ok. vm_compute. reflexivity.
Qed.
Example ex_state :
  let s := mrun ex_s0 (ex_sched 20 9) in
  (match geto s 1 with
   | Some ob => (owners s 1 =? 2) && (strong (word ob) =? 2) && (weak (word ob) =? 2) && negb (destructed (word ob))
   | None => false
   end) &&
  (match gett s 1 with
   | Some x => match frames x with FIncS100 1 _ :: _ => true | _ => false end
   | None => false
   end) = true.
Proof. vm_compute. reflexivity. Qed.

Example C05_monotone_needs_bounds : ~ C05_monotone_unbounded.
Proof.
  intros H.
  set (c := {| cdst := O; cok := HRc (1%nat, 0); cfail := HNone; cign := false |}).
  set (ob := {| word := 2 ^ 60 - 1; dropped := false; freed := false; tok := false; wtok := false; links := [] |}).
  set (x := {| vars := [HNone]; gdepth := 0; ann := 0; serial := 0; inclosure := false; frames := [FIncS100 1 c];
               prog := []; res := 0; resw := 0 |}).
  set (s := {| G := 0; objs := [ob]; cells := []; threads := [x]; pending := []; err := 0 |}).
  destruct (micro s 0 []) as [[s' obs]|] eqn:Hm; [|vm_compute in Hm; discriminate].
  assert (Hg' : geto s' 1 = Some (with_word ob (2 ^ 60))) by (vm_compute in Hm; inversion Hm; reflexivity).
  specialize (H s O [] s' obs 1%nat ob _ Hm eq_refl Hg' eq_refl). vm_compute in H. discriminate.
Qed.

Print Assumptions micro_inv.
Print Assumptions mrun_inv_tde.
Print Assumptions C01_tde.
Print Assumptions C04_tde.
Print Assumptions C05_monotone_tde.
Print Assumptions C05_upgrade_tde.
Print Assumptions C10_tde.

(* ---- facts about the decrementing frames, reused by the weak side (RcWeakP.v) *)
Lemma decs112_facts s t x k o cnt r tmp own ob :
  Inv' s -> gett s t = Some x -> frames x = FDecS112 o cnt r (word ob) tmp own :: k -> geto s o = Some ob ->
  0 < cnt <= strong (word ob) /\ destructed (word ob) = false.
Proof.
  intros HI Hx Hf Hg. prep HI Hx Hf HA HN HT Wx Sx Hfw Hst.
  pose proof (HA _ _ Hg) as Hinv.
  pose proof (owners_ge_top s t x o _ _ (Inv'_all_wf _ HI) Hx Hf) as Hown. cbn [frame_strong] in Hown.
  pose proof (attempts_ge_top s t x o _ _ Hx Hf) as Hatt. cbn [frame_attempt] in Hatt. rewrite Nat.eqb_refl in *.
  destruct Hwf0 as (Hcnt & Hown1).
  assert (Hd : destructed (word ob) = false).
  { destruct (destructed (word ob)) eqn:E; auto. destruct (j_dead _ _ _ Hinv E). destruct own; lia. }
  destruct (live_facts _ _ _ Hinv Hd) as (J1 & J2 & J3 & Jd & Jf & Jo).
  pose proof (b2z_range (tok ob)) as Hb.
  split; auto. split; auto. destruct own; [lia|].
  cbn in Hst. destruct Hst as (ob0 & Hg0 & Ht). rewrite Hg in Hg0. inversion Hg0; subst ob0.
  rewrite Ht in J1. cbn in J1. specialize (Hown1 eq_refl). lia.
Qed.

Lemma kid119_facts s t x k c nxt depth ne curr outs ob :
  Inv' s -> gett s t = Some x -> frames x = FKid119 c (word ob) nxt depth ne curr outs :: k -> geto s (fst c) = Some ob ->
  1 <= strong (word ob) /\ exists e, nxt = with_epoch (sub_strong (word ob) 1) e.
Proof.
  intros HI Hx Hf Hg. prep HI Hx Hf HA HN HT Wx Sx Hfw Hst.
  destruct Hwf0 as (Hdep & (e & Hnxt) & _). split; [|eauto].
  pose proof (HA _ _ Hg) as Hinv.
  pose proof (owners_ge_top s t x (fst c) _ _ (Inv'_all_wf _ HI) Hx Hf) as Hown. cbn [frame_strong] in Hown.
  rewrite is_o_eq in Hown. pose proof (sumZ_is_o_nonneg (fst c) outs).
  assert (Hd : destructed (word ob) = false).
  { destruct (destructed (word ob)) eqn:E; auto. destruct (j_dead _ _ _ Hinv E). lia. }
  destruct (live_facts _ _ _ Hinv Hd) as (J1 & _). pose proof (b2z_range (tok ob)). lia.
Qed.
