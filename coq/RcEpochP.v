(* The abstract EBR layer of Rc.v is consistent with what Ebr.v proves (C13, C14): along every run of the
   model that has not raised an error,
     - a thread inside a critical section announced an epoch within one of the global epoch;
     - the critical sections recorded as witnesses of a deferred function are, when that function starts,
       all over (the "grace period" the count protocol relies on for property C02).
   Illegal advances set [err] (and every theorem about the model assumes err = 0; the correspondence check
   reports a non-zero err as a mismatch), so the invariant is stated as  err <> 0 \/ ... *)
From Coq Require Import ZArith List Bool Lia.
Import ListNotations.
Require Import Params StateW DisposeW Rc RcDepthP.
Local Open Scope Z_scope.

Definition thr_e (g : Z) (x : thr) : Prop := incs x = true -> ann x <= g <= ann x + 1.

Definition wit_ok (ths : list thr) (p : pend) : Prop :=
  forall t n x, In (t, n) (pwit p) -> nth_error ths t = Some x ->
    (n <= serial x)%nat /\ (incs x = true -> serial x = n -> ann x <= pG p).

Record EInv (s : state) : Prop := {
  e_thr : forall t x, gett s t = Some x -> thr_e (G s) x;
  e_pend : forall p, In p (pending s) -> pG p <= G s /\ wit_ok (threads s) p;
}.

Definition EOK (s : state) : Prop := err s <> 0 \/ EInv s.

(* ---- witnesses *)
Lemma witnesses_from_in ls : forall i t n,
  In (t, n) (witnesses_from ls i) ->
  exists x, nth_error ls (t - i) = Some x /\ (i <= t)%nat /\ incs x = true /\ serial x = n.
Proof.
  induction ls as [|l r IH]; intros i t n H; cbn in H; [contradiction|].
  apply in_app_or in H. destruct H as [H|H].
  - destruct (incs l) eqn:E; [|contradiction]. destruct H as [H|[]]. inversion H; subst.
    exists l. rewrite Nat.sub_diag. cbn. auto.
  - destruct (IH _ _ _ H) as (x & Hx & Hle & Hi & Hs). exists x.
    replace (t - i)%nat with (S (t - S i)) by lia. cbn. repeat split; auto; lia.
Qed.

Lemma witnesses_in s t n : In (t, n) (witnesses s) -> exists x, gett s t = Some x /\ incs x = true /\ serial x = n.
Proof.
  intros H. destruct (witnesses_from_in _ _ _ _ H) as (x & Hx & _ & Hi & Hs).
  rewrite Nat.sub_0_r in Hx. exists x; auto.
Qed.

(* ---- state transformers *)
Lemma eok_set_err s e : e <> 0 -> EOK (set_err s e).
Proof. intros He. left. cbn. destruct (err s =? 0) eqn:E; [exact He | apply Z.eqb_neq in E; exact E]. Qed.

Lemma eok_set_err' s e : EOK s -> EOK (set_err s e).
Proof.
  intros [H|H]; [left; cbn; destruct (err s =? 0) eqn:E; [apply Z.eqb_eq in E; contradiction | exact H]|].
  destruct (Z.eq_dec (err s) 0) as [E0|E0].
  - destruct (Z.eq_dec e 0) as [->|He]; [|apply eok_set_err; exact He].
    right. destruct H as [H1 H2]. split; [exact H1 | exact H2].
  - left. cbn. destruct (err s =? 0) eqn:E; [apply Z.eqb_eq in E; contradiction | exact E0].
Qed.

Lemma eok_seto s o ob : EOK s -> EOK (seto s o ob).
Proof. intros [H|[H1 H2]]; [left; destruct o; exact H | right; destruct o; split; assumption]. Qed.

Lemma eok_set_cell s c l : EOK s -> EOK (set_cell s c l).
Proof.
  intros H. unfold set_cell. destruct (c <? 1000).
  - destruct H as [H|[H1 H2]]; [left; exact H | right; split; assumption].
  - destruct (geto s _); [apply eok_seto; exact H | exact H].
Qed.

Lemma eok_alloc s n : EOK s -> EOK (fst (alloc s n)).
Proof. intros [H|[H1 H2]]; [left; exact H | right; split; assumption]. Qed.

Lemma eok_set_pending s r : (forall p, In p r -> In p (pending s)) -> EOK s -> EOK (set_pending s r).
Proof. intros Hr [H|[H1 H2]]; [left; exact H | right; split; [exact H1 | intros p Hp; apply H2; apply Hr; exact Hp]]. Qed.

Lemma take_pending_sub l k o : forall p r, take_pending l k o = Some (p, r) ->
  In p l /\ forall q, In q r -> In q l.
Proof.
  induction l as [|a l IH]; intros p r H; cbn in H; [discriminate|].
  destruct (pkind_eqb (pk a) k && Nat.eqb (po a) o).
  - inversion H; subst. split; [left; reflexivity | intros q Hq; right; exact Hq].
  - destruct (take_pending l k o) as [[q r']|]; [|discriminate]. inversion H; subst.
    destruct (IH _ _ eq_refl) as [Hp Hr]. split; [right; exact Hp|].
    intros q' [<-|Hq]; [left; reflexivity | right; apply Hr; exact Hq].
Qed.

Lemma eok_defer s k o : EOK s -> EOK (defer s k o).
Proof.
  intros [H|[H1 H2]]; [left; exact H|]. right. split; [exact H1|].
  intros p Hp. cbn in Hp. apply in_app_or in Hp. destruct Hp as [Hp|[<-|[]]]; [apply H2; exact Hp|].
  cbn. split; [lia|]. intros t n x Hin Hx. cbn in Hx.
  destruct (witnesses_in _ _ _ Hin) as (y & Hy & Hi & Hs). unfold gett in Hy. rewrite Hx in Hy. inversion Hy; subst y.
  split; [lia|]. intros _ _. apply (H1 t x Hx Hi).
Qed.

Lemma can_advance_all s : can_advance s = true -> forall t x, gett s t = Some x -> incs x = true -> ann x = G s.
Proof.
  unfold can_advance. rewrite forallb_forall. intros H t x Hx Hi.
  specialize (H x (nth_error_In _ _ Hx)). rewrite Hi in H. cbn in H. apply Z.eqb_eq in H. exact H.
Qed.

Lemma eok_advance_to fuel : forall s g, EOK s -> EOK (advance_to fuel s g).
Proof.
  induction fuel as [|n IH]; intros s g H; cbn [advance_to]; [exact H|].
  destruct (G s <? g); [|exact H]. apply IH.
  destruct (can_advance s) eqn:Hc.
  - destruct H as [H|[H1 H2]]; [left; exact H|]. right. split.
    + intros t x Hx Hi. cbn in Hx. pose proof (can_advance_all _ Hc t x Hx Hi). cbn. lia.
    + intros p Hp. cbn in Hp. destruct (H2 p Hp) as [Hg Hw]. cbn. split; [lia | exact Hw].
  - left. cbn. destruct (err s =? 0) eqn:E; [discriminate | apply Z.eqb_neq in E; exact E].
Qed.

Lemma eok_see_epoch s g : EOK s -> EOK (see_epoch s g).
Proof. apply eok_advance_to. Qed.

Lemma advance_to_G fuel : forall s g, G s <= G (advance_to fuel s g) /\ (g - G s <= Z.of_nat fuel -> g <= G (advance_to fuel s g)).
Proof.
  induction fuel as [|n IH]; intros s g; cbn [advance_to]; [split; [lia | cbn; lia]|].
  destruct (G s <? g) eqn:E.
  - specialize (IH (set_G (if can_advance s then s else set_err s 3) (G s + 1)) g). cbn [G set_G] in IH.
    destruct IH as [I1 I2]. split; [lia|]. intros Hf. apply I2. lia.
  - apply Z.ltb_ge in E. split; [lia | intros _; exact E].
Qed.

Lemma see_epoch_G s g : G s <= G (see_epoch s g) /\ g <= G (see_epoch s g).
Proof.
  unfold see_epoch. destruct (advance_to_G (Z.to_nat (g - G s)) s g) as [H1 H2]. split; [exact H1|].
  apply H2. lia.
Qed.

(* ---- replacing thread t *)
Definition compat (x x' : thr) : Prop :=
  serial x' = serial x /\ (incs x' = true -> incs x = true /\ ann x' = ann x).

Lemma nth_set_nth_inv {A} (l : list A) n m x y : nth_error (set_nth l n x) m = Some y ->
  (n = m /\ y = x) \/ (n <> m /\ nth_error l m = Some y).
Proof.
  revert n m; induction l as [|a l IH]; intros [|n] [|m] H; cbn in *; try discriminate.
  - inversion H; auto.
  - right; split; [lia | exact H].
  - right; split; [lia | exact H].
  - destruct (IH _ _ H) as [[-> ->]|[Hn Hm]]; [left; auto | right; split; [lia | exact Hm]].
Qed.

Lemma nth_set_nth_some {A} (l : list A) n x y : nth_error (set_nth l n x) n = Some y -> exists z, nth_error l n = Some z.
Proof. revert n; induction l as [|a l IH]; intros [|n] H; cbn in *; try discriminate; eauto. Qed.

Lemma eok_sett s t x x' : EOK s -> gett s t = Some x -> compat x x' -> EOK (sett s t x').
Proof.
  intros [H|[H1 H2]] Hx [Hser Hc]; [left; exact H|]. right. split.
  - intros q y Hy. unfold gett, sett in Hy; cbn in Hy.
    destruct (nth_set_nth_inv _ _ _ _ _ Hy) as [[-> ->]|[Hn Hq]].
    + intros Hi. destruct (Hc Hi) as [Hi' Ha]. rewrite Ha. apply (H1 q x Hx Hi').
    + apply (H1 q y Hq).
  - intros p Hp. destruct (H2 p Hp) as [Hg Hw]. split; [exact Hg|].
    intros q n y Hin Hy. cbn in Hy.
    destruct (nth_set_nth_inv _ _ _ _ _ Hy) as [[-> ->]|[Hn Hq]].
    + destruct (Hw q n x Hin Hx) as [W1 W2]. rewrite Hser. split; [exact W1|].
      intros Hi Hs. destruct (Hc Hi) as [Hi' Ha]. rewrite Ha. apply W2; auto.
    + apply (Hw q n y Hin Hq).
Qed.

(* the outermost pin: announcement = current epoch, fresh serial *)
Lemma eok_sett_pin s t x x' : EOK s -> gett s t = Some x -> incs x = false ->
  ann x' = G s -> serial x' = S (serial x) -> EOK (sett s t x').
Proof.
  intros [H|[H1 H2]] Hx Hi Ha Hser; [left; exact H|]. right. split.
  - intros q y Hy. unfold gett, sett in Hy; cbn in Hy.
    destruct (nth_set_nth_inv _ _ _ _ _ Hy) as [[-> ->]|[Hn Hq]].
    + intros _. rewrite Ha. cbn. lia.
    + apply (H1 q y Hq).
  - intros p Hp. destruct (H2 p Hp) as [Hg Hw]. split; [exact Hg|].
    intros q n y Hin Hy. cbn in Hy.
    destruct (nth_set_nth_inv _ _ _ _ _ Hy) as [[-> ->]|[Hn Hq]].
    + destruct (Hw q n x Hin Hx) as [W1 _]. rewrite Hser. split; [lia|]. intros _ Hs. lia.
    + apply (Hw q n y Hin Hq).
Qed.

(* ---- operation start *)
Lemma compat_refl x : compat x x.
Proof. split; auto. Qed.
Lemma compat_vars x v : compat x (with_vars x v).
Proof. split; auto. Qed.
Lemma compat_res x r : compat x (with_res x r).
Proof. split; auto. Qed.
Lemma compat_trans x y z : compat x y -> compat y z -> compat x z.
Proof.
  intros [S1 C1] [S2 C2]. split; [congruence|]. intros H. destruct (C2 H) as [H2 A2]. destruct (C1 H2) as [H1 A1].
  split; [exact H1 | congruence].
Qed.
#[export] Hint Resolve compat_refl compat_vars compat_res : compat.

Ltac compat_tac :=
  unfold compat, setv, incs;
  cbn [serial ann gdepth with_vars with_res with_resw with_guard with_inclosure with_frames];
  split; [reflexivity | intros ?H; split; [first [assumption | reflexivity] | reflexivity]].

Lemma start_op_eok s x rec op s1 x1 fs o :
  EOK s -> start_op s x rec op = (s1, x1, fs, o) ->
  EOK s1 /\ threads s1 = threads s /\
  (compat x x1 \/ (incs x = false /\ ann x1 = G s1 /\ serial x1 = S (serial x))).
Proof.
  intros HI H. unfold start_op in H.
  destruct (negb (dst_free x op)); [inversion H; subst; auto with compat|].
  repeat match type of H with
         | context [match ?r with _ => _ end] => is_var r; destruct r
         end; try (inversion H; subst; auto with compat; fail).
  all: repeat match type of H with
         | context [match gdepth ?a with O => _ | S _ => _ end] => destruct (gdepth a) eqn:?
         | context [let (_, _) := alloc ?a ?b in _] => unfold alloc in H
         | context [match getv ?a ?b with _ => _ end] => destruct (getv a b)
         | context [match get_cell ?a ?b with _ => _ end] => destruct (get_cell a b)
         | context [if ?c then _ else _] => destruct c
         | context [match ?r with _ => _ end] => is_var r; destruct r
         end; try (inversion H; subst; auto with compat; fail).
  all: try (inversion H; subst; clear H; split; [| split; [reflexivity|]];
            [ first [ exact HI | apply (eok_alloc s); exact HI | apply eok_set_err'; exact HI | idtac ] | first [ left; compat_tac | idtac ] ]).
  all: try (left; unfold compat, incs; cbn [serial ann gdepth with_vars with_guard];
            match goal with E : gdepth _ = _ |- _ => rewrite ?E end; cbn;
            split; [reflexivity | intros ?H; first [discriminate | split; reflexivity]]).
  - inversion H; subst; clear H. split; [apply eok_see_epoch; exact HI|]. split; [apply threads_see_epoch|].
    right. unfold incs. rewrite Heqn. cbn. auto.
Qed.

(* ---- every micro step *)
Lemma eok_take s k o p r : EOK s -> take_pending (pending s) k o = Some (p, r) -> EOK (set_pending s r).
Proof. intros H Ht. apply eok_set_pending; [|exact H]. apply (take_pending_sub _ _ _ _ _ Ht). Qed.


Ltac eok_state HI :=
  repeat first [ exact HI | eapply eok_take; [|eassumption] | apply eok_see_epoch | apply eok_defer | apply eok_seto | apply eok_set_cell
               | apply eok_set_err' | apply (eok_alloc _ _) ].
Ltac gett_same Ht :=
  unfold gett in *; cbn [threads]; autorewrite with thr; exact Ht.
Ltac eok_case HI Ht :=
  eapply eok_sett; [ eok_state HI | gett_same Ht | first [ compat_tac | idtac ] ].

Ltac split_matches_e Hm :=
  repeat match type of Hm with
         | context [match geto ?a ?b with _ => _ end] => destruct (geto a b) eqn:?
         | context [match get_cell ?a ?b with _ => _ end] => destruct (get_cell a b) eqn:?
         | context [match gdepth ?a with O => _ | S _ => _ end] => destruct (gdepth a) eqn:?
         | context [if ?c then _ else _] => destruct c eqn:?
         | context [match take_pending ?a ?b ?c with _ => _ end] => destruct (take_pending a b c) as [[? ?]|] eqn:?
         | context [match ?r with _ => _ end] => is_var r; destruct r
         end.

Theorem micro_eok s t rec s' obs : EOK s -> micro s t rec = Some (s', obs) -> EOK s'.
Proof.
  intros HI Hm. unfold micro in Hm.
  destruct (gett s t) as [x|] eqn:Ht; [|discriminate].
  destruct (frames x) as [|f k] eqn:Hf; [discriminate|].
  destruct f; [ | | try (split_matches_e Hm; try (inversion Hm; subst; clear Hm; eok_case HI Ht; fail)) .. ].
  - inversion Hm; subst; clear Hm. eok_case HI Ht.
  - (* FOp *)
    destruct (prog x) as [|op rest].
    + inversion Hm; subst; clear Hm. eok_case HI Ht.
    + destruct (start_op s _ rec op) as [[[s1 x1] fs] o] eqn:Hso. inversion Hm; subst; clear Hm.
      destruct (start_op_eok _ _ _ _ _ _ _ _ HI Hso) as (H1 & Hth & Hc).
      assert (Hg : gett s1 t = Some x) by (unfold gett in *; rewrite Hth; exact Ht).
      destruct Hc as [Hc|(Hi & Ha & Hs)].
      * eapply eok_sett; [exact H1 | exact Hg |].
        eapply compat_trans; [|exact Hc]. compat_tac.
      * eapply eok_sett_pin; [exact H1 | exact Hg | | exact Ha | exact Hs]. exact Hi.
  - (* FUnpinTmp *)
    inversion Hm; subst; clear Hm. eapply eok_sett; [exact HI | exact Ht |].
    unfold compat, incs; cbn [serial ann gdepth with_guard with_frames]. split; [reflexivity|].
    intros H. split; [|reflexivity]. destruct (gdepth x) as [|[|n]]; cbn in *; auto.
  - (* FDecS110 pins for the decrement (D7 repair): an outermost pin *)
    inversion Hm; subst; clear Hm.
    eapply eok_sett_pin; [apply eok_see_epoch; exact HI | gett_same Ht | | reflexivity | reflexivity].
    unfold incs. rewrite Heqn. reflexivity.
  - (* ... or a nested one *)
    inversion Hm; subst; clear Hm. eapply eok_sett; [apply eok_see_epoch; exact HI | gett_same Ht |].
    unfold compat, incs; cbn [serial ann gdepth with_guard with_frames]. rewrite Heqn. cbn. auto.
Qed.

(* ---- lifted to scheduled steps and runs *)
Lemma run_local_eok fuel : forall s t rec acc s' o b, EOK s -> run_local fuel s t rec acc = (s', o, b) -> EOK s'.
Proof.
  induction fuel as [|n IH]; intros s t rec acc s' o b HI H; cbn [run_local] in H.
  - inversion H; subst; exact HI.
  - destruct (gett s t) as [x|]; [|inversion H; subst; exact HI].
    destruct (frames x) as [|f k]; [inversion H; subst; exact HI|].
    destruct (is_yield f); [inversion H; subst; exact HI|].
    destruct (micro s t rec) as [[s1 o1]|] eqn:Hm; [|inversion H; subst; exact HI].
    eapply IH; [eapply micro_eok; eauto | exact H].
Qed.

Theorem step_eok s t rec s' obs : EOK s -> step s t rec = Some (s', obs) -> EOK s'.
Proof.
  intros HI H. unfold step in H.
  destruct (top_is_yield s t); [|discriminate].
  destruct (micro s t rec) as [[s1 o1]|] eqn:Hm1; [|discriminate].
  pose proof (micro_eok _ _ _ _ _ HI Hm1) as HI1.
  destruct (top_is_await s t && top_is_yield s1 t).
  - destruct (micro s1 t rec) as [[s2 o2]|] eqn:Hm2; [|discriminate].
    pose proof (micro_eok _ _ _ _ _ HI1 Hm2) as HI2.
    destruct (run_local 1000 s2 t rec (o1 ++ o2)) as [[s3 o3] b] eqn:Hr. destruct b; [|discriminate].
    inversion H; subst. eapply run_local_eok; eauto.
  - destruct (run_local 1000 s1 t rec o1) as [[s3 o3] b] eqn:Hr. destruct b; [|discriminate].
    inversion H; subst. eapply run_local_eok; eauto.
Qed.

Theorem srun_eok sched : forall s, EOK s -> EOK (srun s sched).
Proof.
  induction sched as [|[t rec] r IH]; intros s HI; cbn [srun]; [exact HI|].
  destruct (step s t rec) as [[s1 o1]|] eqn:Hm; [apply IH; eapply step_eok; eauto | apply IH; exact HI].
Qed.

Lemma dec_threads_out fuel : forall l x, In x (dec_threads fuel l) -> incs x = false.
Proof.
  induction fuel as [|n IH]; intros l x; cbn [dec_threads]; [intros []|].
  destruct l as [|a l]; [intros []|].
  destruct a as [|p|p]; try (intros []). destruct p; try (intros []).
  destruct l as [|nv l]; [intros []|].
  destruct (dec_vars (nat_of nv) l) as [v r1]. destruct r1 as [|nops r2]; [intros []|].
  destruct (dec_ops (nat_of nops) r2) as [ops r3]. intros [<-|H]; [reflexivity | eapply IH; exact H].
Qed.

Theorem init_eok prog : EOK (init prog).
Proof.
  right. split.
  - intros t x Hx Hi. exfalso.
    assert (incs x = false); [|congruence].
    unfold gett, init in Hx. destruct prog as [|g0 [|nc [|no r]]]; cbn [threads] in Hx; try (destruct t; discriminate).
    eapply dec_threads_out. eapply nth_error_In; eauto.
  - intros p Hp. unfold init in Hp. destruct prog as [|g0 [|nc [|no r]]]; cbn in Hp; contradiction.
Qed.

(* ---- what the invariant gives *)

(* C14 inside M3: a thread inside a critical section is within one epoch of the global epoch *)
Theorem cs_skew prog sched t x :
  let s := srun (init prog) sched in
  err s = 0 -> gett s t = Some x -> incs x = true -> ann x <= G s <= ann x + 1.
Proof.
  intros s He Hx Hi. destruct (srun_eok sched _ (init_eok prog)) as [H|[H1 _]]; [contradiction|].
  exact (H1 t x Hx Hi).
Qed.

Lemma see_epoch_pending s r g : see_epoch (set_pending s r) g = set_pending (see_epoch s g) r.
Proof.
  unfold see_epoch. cbn [G set_pending]. generalize (Z.to_nat (g - G s)) as fuel. intros fuel. revert s.
  induction fuel as [|n IH]; intros s; cbn [advance_to]; [reflexivity|].
  cbn [G set_pending]. destruct (G s <? g); [|reflexivity].
  replace (can_advance (set_pending s r)) with (can_advance s) by reflexivity.
  destruct (can_advance s); rewrite <- IH; reflexivity.
Qed.

(* C13 inside M3: when a deferred try_destruct / try_dealloc starts (and the model raised no error), at least
   EXPIRE_AFTER epochs have passed since it was deferred and none of the critical sections that were active
   when it was deferred is still active *)
Theorem closure_grace s t rec x k s' obs :
  EOK s -> gett s t = Some x -> frames x = FAwait :: k ->
  micro s t rec = Some (s', obs) -> err s' = 0 ->
  exists kd o p rest,
    take_pending (pending s) kd o = Some (p, rest) /\ pending s' = rest /\
    pG p + EXPIRE_AFTER <= G s' /\
    forall q n y, In (q, n) (pwit p) -> gett s' q = Some y -> incs y = true -> serial y <> n.
Proof.
  intros HI Ht Hf Hm He. unfold micro in Hm. rewrite Ht, Hf in Hm.
  assert (Hgen : forall kd oz fs,
     match take_pending (pending s) kd (nat_of oz) with
     | None => Some (sett (set_err s 1) t (with_frames (with_inclosure x true) (fs ++ FEndClosure :: k)), @nil Z)
     | Some (p, rest) => Some (sett (see_epoch (set_pending s rest) (pG p + EXPIRE_AFTER)) t
                                (with_frames (with_inclosure x true) (fs ++ FEndClosure :: k)), @nil Z)
     end = Some (s', obs) ->
     exists kd o p rest,
       take_pending (pending s) kd o = Some (p, rest) /\ pending s' = rest /\
       pG p + EXPIRE_AFTER <= G s' /\
       forall q n y, In (q, n) (pwit p) -> gett s' q = Some y -> incs y = true -> serial y <> n).
  { intros kd oz fs H.
    destruct (take_pending (pending s) kd (nat_of oz)) as [[p rest]|] eqn:Htp.
    - inversion H; subst s' obs; clear H.
      exists kd, (nat_of oz), p, rest. split; [exact Htp|].
      rewrite see_epoch_pending. cbn [pending sett set_pending G].
      split; [reflexivity|]. split; [apply see_epoch_G|].
      (* the invariant in the advanced state, with p still listed *)
      pose proof (eok_see_epoch s (pG p + EXPIRE_AFTER) HI) as [Hbad|[H1 H2]].
      { exfalso. apply Hbad. cbn [err sett] in He. rewrite see_epoch_pending in He. exact He. }
      destruct (take_pending_sub _ _ _ _ _ Htp) as [Hin _].
      assert (Hin' : In p (pending (see_epoch s (pG p + EXPIRE_AFTER)))).
      { clear - Hin. unfold see_epoch. generalize (Z.to_nat (pG p + EXPIRE_AFTER - G s)) as fuel. intros fuel.
        revert s Hin. induction fuel as [|n IH]; intros s Hin; cbn [advance_to]; [exact Hin|].
        destruct (G s <? _); [|exact Hin]. apply IH. destruct (can_advance s); exact Hin. }
      destruct (H2 p Hin') as [_ Hw].
      intros q n y Hq Hy Hi Hs.
      pose proof (see_epoch_G s (pG p + EXPIRE_AFTER)) as [_ HG].
      unfold gett in Hy. cbn [threads sett set_pending] in Hy.
      destruct (nth_set_nth_inv _ _ _ _ _ Hy) as [[-> ->]|[Hn Hq']].
      + (* the thread running the closure itself *)
        assert (Hx' : nth_error (threads (see_epoch s (pG p + EXPIRE_AFTER))) q = Some x).
        { rewrite threads_see_epoch. exact Ht. }
        destruct (Hw q n x Hq Hx') as [_ W2].
        pose proof (H1 q x Hx' Hi) as HE. specialize (W2 Hi Hs). unfold EXPIRE_AFTER in *. lia.
      + destruct (Hw q n y Hq Hq') as [_ W2].
        pose proof (H1 q y Hq' Hi) as HE. specialize (W2 Hi Hs). unfold EXPIRE_AFTER in *. lia.
    - exfalso. inversion H; subst s'. cbn in He.
      destruct (err s =? 0) eqn:E; [discriminate | apply Z.eqb_neq in E; contradiction]. }
  repeat match type of Hm with
         | context [match ?r with _ => _ end] => is_var r; destruct r
         end.
  all: try (exfalso; inversion Hm; subst s'; cbn in He;
            destruct (err s =? 0) eqn:E; [discriminate | apply Z.eqb_neq in E; contradiction]).
  all: eapply Hgen; exact Hm.
Qed.

Print Assumptions micro_eok.
Print Assumptions closure_grace.
Print Assumptions cs_skew.
