(* Ghost accounting and the statements of the reference-counting properties over the model Rc.v.
   This file contains definitions only; the proofs are in RcP.v (strong side) and RcWeakP.v. *)
From Coq Require Import ZArith List Bool Lia.
Import ListNotations.
Require Import Params StateW DisposeW Rc.
Local Open Scope Z_scope.

(* ---- who owns a strong share of object [o] *)
Definition b2z := Z.b2z.
Definition is_o (o : nat) (l : link) : Z := if Nat.eqb (fst l) o then 1 else 0.

Definition handle_strong (o : nat) (h : handle) : Z :=
  match h with
  | HRc l => is_o o l
  | HIter o' rem => if Nat.eqb o' o then rem else 0
  | _ => 0
  end.
Definition handle_weak (o : nat) (h : handle) : Z :=
  match h with HWeak l => is_o o l | _ => 0 end.

Definition sumZ {A} (f : A -> Z) (l : list A) : Z := fold_right (fun a acc => f a + acc) 0 l.

(* shares travelling inside an operation in progress (taken out of the variables, not yet given up
   in the count word; or already counted, not yet stored into a variable) *)
Definition frame_strong (o : nat) (f : frame) : Z :=
  match f with
  | FDecS110 o' cnt _ true | FDecS111 o' cnt _ _ true | FDecS112 o' cnt _ _ _ true => if Nat.eqb o' o then cnt else 0
  | FRet c b => handle_strong o (if b then cok c else cfail c)
  | FSwap122 _ new _ | FSwap120 _ new _ => is_o o new
  | FDisp117 _ _ _ _ outs | FKids _ _ _ outs => sumZ (is_o o) outs
  | FKid118 c _ _ _ outs | FKid119 c _ _ _ _ _ outs => is_o o c + sumZ (is_o o) outs
  | _ => 0
  end.
(* weak shares: the handles of increment_weak are created (in variables / in the pending FRet) before
   the count is added, hence the negative credits of the frames that still owe the addition *)
Definition frame_weak (o : nat) (f : frame) : Z :=
  match f with
  | FRet c b => handle_weak o (if b then cok c else cfail c)
  | FDecW107 o' _ true => if Nat.eqb o' o then 1 else 0
  | FIncW103 o' cnt | FIncW104 o' cnt _ | FIncW105 o' cnt => if Nat.eqb o' o then - cnt else 0
  | FIncW106 o' => if Nat.eqb o' o then - 1 else 0
  | _ => 0
  end.

Definition thr_strong (o : nat) (x : thr) : Z := sumZ (handle_strong o) (vars x) + sumZ (frame_strong o) (frames x).
Definition thr_weak (o : nat) (x : thr) : Z := sumZ (handle_weak o) (vars x) + sumZ (frame_weak o) (frames x).

(* links of an object still hold their shares until pop_edges takes them (the model moves them into
   the disposing frame and nulls the fields at that point) *)
Definition obj_links_strong (o : nat) (ob : obj) : Z := sumZ (is_o o) (links ob).

Definition owners (s : state) (o : nat) : Z :=
  sumZ (thr_strong o) (threads s) + sumZ (is_o o) (cells s) + sumZ (obj_links_strong o) (objs s).
Definition wowners (s : state) (o : nat) : Z := sumZ (thr_weak o) (threads s).

(* ---- destruction attempts of [o]: deferred try_destruct calls plus the ones in progress (a cascade
        frame standing on a child whose count it brought to zero counts as the attempt) *)
Definition pend_is (k : pkind) (o : nat) (p : pend) : Z :=
  if pkind_eqb (pk p) k && Nat.eqb (po p) o then 1 else 0.
Definition frame_attempt (o : nat) (f : frame) : Z :=
  match f with
  | FTD113 o' | FTD114 o' _ => if Nat.eqb o' o then 1 else 0
  | FDecS110 o' _ _ false | FDecS111 o' _ _ _ false | FDecS112 o' _ _ _ _ false => if Nat.eqb o' o then 1 else 0
  | FDispEnter o' d | FDisp115 o' d | FDisp116 o' d _ | FDisp130 o' d _ _ => if Nat.eqb o' o && (0 <? d) then 1 else 0
  | _ => 0
  end.
Definition attempts (s : state) (o : nat) : Z :=
  sumZ (pend_is KDestruct o) (pending s) + sumZ (fun x => sumZ (frame_attempt o) (frames x)) (threads s).

Definition frame_dealloc_attempt (o : nat) (f : frame) : Z :=
  match f with
  | FTDe102 o' | FDecW107 o' _ false => if Nat.eqb o' o then 1 else 0
  | _ => 0
  end.
Definition dealloc_attempts (s : state) (o : nat) : Z :=
  sumZ (pend_is KDealloc o) (pending s) + sumZ (fun x => sumZ (frame_dealloc_attempt o) (frames x)) (threads s).

(* ---- bounds: the 29-bit count fields do not overflow (an explicit hypothesis of every theorem) *)
Definition LIM : Z := 2 ^ 28.
(* the arguments of the remaining operations are sane: destination slots exist (the model's [setv] is a
   no-op beyond the variable array, which would silently lose the share just created) and the const-generic
   counts of new_many / new_many_iter / weak_many fit the count fields (FINDING F2/F3 of NOTES_RcP.md:
   without this, weak_many::<2^30> adds 2^59 to the word, i.e. flips DESTRUCTED, with every field < LIM) *)
Definition op_ok (n : nat) (op : list Z) : Prop :=
  match op with
  | [0; d] => (nat_of d < n)%nat
  | [1; c; d] => 0 <= c < LIM /\ (nat_of d + nat_of c <= n)%nat
  | [2; c; d] => 0 <= c < LIM /\ (nat_of d < n)%nat
  | [_; _; d] => (nat_of d < n)%nat
  | [10; _; c; d] => 0 < c < LIM /\ (nat_of d + nat_of c <= n)%nat   (* weak_many::<0> is not covered by the weak-side accounting *)
  | [32; _; _; _; _; d] => (nat_of d < n)%nat
  | [33; _; _; _; _; _; d] => (nat_of d < n)%nat
  | _ => True
  end.
Definition fields_bounded (s : state) : Prop :=
  forall o ob, geto s o = Some ob -> 0 <= word ob < 2 ^ 64 /\ strong (word ob) < LIM /\ weak (word ob) < LIM.
(* [err s = 0]: the oracle never made the model start a deferred function that was not pending (error 1:
   the model flags it but goes on, FINDING F1), and the other model-level errors did not occur either *)
Definition bounded (s : state) : Prop :=
  fields_bounded s /\ err s = 0 /\
  forall t x, gett s t = Some x -> Forall (op_ok (length (vars x))) (prog x).

(* ---- the count protocol (J1..J3 of DESIGN.md Appendix A.4), per live object *)
Record obj_inv (s : state) (o : nat) (ob : obj) : Prop := {
  (* J1: the strong field is the number of owners plus the token *)
  j_strong : destructed (word ob) = false -> strong (word ob) = owners s o + b2z (tok ob);
  (* J2: exactly one attempt is pending or in progress iff the count is zero or carries a token *)
  j_attempts : destructed (word ob) = false ->
               0 <= attempts s o <= 1 /\ (attempts s o = 1 <-> (strong (word ob) = 0 \/ tok ob = true));
  (* J3: the flag is what protects the payload, and it is final *)
  j_dropped : dropped ob = true -> destructed (word ob) = true;
  j_freed : freed ob = true -> dropped ob = true;
  j_dead : destructed (word ob) = true -> owners s o = 0 /\ attempts s o = 0;
  j_owners_nonneg : 0 <= owners s o;
}.

Definition Inv (s : state) : Prop :=
  forall o ob, geto s o = Some ob -> obj_inv s o ob.

(* ---- runs: every schedule, every oracle *)
Fixpoint mrun (s : state) (sched : list (nat * list Z)) : state :=
  match sched with
  | [] => s
  | (t, rec) :: r => match micro s t rec with Some (s', _) => mrun s' r | None => mrun s r end
  end.

(* a run all of whose states respect the field widths *)
Fixpoint bounded_run (s : state) (sched : list (nat * list Z)) : Prop :=
  bounded s /\
  match sched with
  | [] => True
  | (t, rec) :: r => match micro s t rec with Some (s', _) => bounded_run s' r | None => bounded_run s r end
  end.

(* Snapshot::counted ignores the result of increment_strong: on a destructed object it would hand out an
   Rc that owns nothing.  That can only happen if the Snapshot was not valid (property C02); the count
   theorems assume it does not happen along the run. *)
Definition scounted_ok (s : state) : Prop :=
  forall t x o c k ob, gett s t = Some x -> (frames x = FIncS100 o c :: k \/ frames x = FIncS101 o c :: k) ->
    cign c = true -> geto s o = Some ob -> destructed (word ob) = false.
(* the weak analogue (FINDING F5 of NOTES_RcP.md): increment_weak from zero is two fetch_adds (sites 105, 106); if the
   pending try_dealloc ran its decrement between them it would spawn a second try_dealloc that later eats the new
   owner's unit.  An increment from zero only happens through a WeakSnapshot inside a critical section, and the
   pending try_dealloc was deferred after that section began, so EBR keeps them apart (property C02/C13); the count
   theorems assume it: while a thread sits between sites 105 and 106 on [o], no try_dealloc of [o] decrements. *)
Definition wcounted_ok (s : state) : Prop :=
  forall t x o tmp k t' x', gett s t = Some x -> frames x = FDecW107 o tmp false :: k ->
    gett s t' = Some x' -> ~ In (FIncW106 o) (frames x').
(* increment_weak never runs on a freed block (for C03: otherwise WeakSnapshot::counted on an invalid WeakSnapshot
   would create a weak owner of a freed object; valid snapshots exclude it, property C02) *)
Definition incw_obj (f : frame) : option nat :=
  match f with FIncW103 o _ | FIncW104 o _ _ | FIncW105 o _ | FIncW106 o => Some o | _ => None end.
Definition wlive_ok (s : state) : Prop :=
  forall t x f k o ob, gett s t = Some x -> frames x = f :: k -> incw_obj f = Some o -> geto s o = Some ob -> freed ob = false.
Definition counted_ok (s : state) : Prop := scounted_ok s /\ wcounted_ok s /\ wlive_ok s.
Fixpoint live_counted (s : state) (sched : list (nat * list Z)) : Prop :=
  counted_ok s /\
  match sched with
  | [] => True
  | (t, rec) :: r => match micro s t rec with Some (s', _) => live_counted s' r | None => live_counted s r end
  end.

(* try_dealloc frees only what has been dropped: a count word with weak = 0 on a block not yet freed belongs to a
   dropped payload (the strong side holds one weak share until pop_edges/drop have run).  This is a consequence of
   the weak-side invariant (RcWeakP.v); the strong-side theorems take it as a run hypothesis. *)
Definition tde_ok (s : state) : Prop :=
  forall o ob, geto s o = Some ob -> weak (word ob) = 0 -> freed ob = false -> dropped ob = true.
Fixpoint tde_run (s : state) (sched : list (nat * list Z)) : Prop :=
  tde_ok s /\
  match sched with
  | [] => True
  | (t, rec) :: r => match micro s t rec with Some (s', _) => tde_run s' r | None => tde_run s r end
  end.

(* programs that allocate every object themselves: no initial objects, no initial handles *)
Definition fresh_start (s : state) : Prop :=
  objs s = [] /\ pending s = [] /\
  Forall (fun l => fst l = O) (cells s) /\
  Forall (fun x => Forall (fun h => h = HNone) (vars x) /\ frames x = [FStart; FOp] /\ gdepth x = O /\ inclosure x = false) (threads s).

(* ---- statements *)

(* C01: while a strong owner exists, the payload has not been dropped and the block is not freed *)
Definition C01_statement : Prop :=
  forall s0 sched, fresh_start s0 -> bounded_run s0 sched -> live_counted s0 sched ->
  let s := mrun s0 sched in
  forall o ob, geto s o = Some ob -> 0 < owners s o -> dropped ob = false /\ freed ob = false /\ destructed (word ob) = false.

(* C04 (safety half): the payload is dropped at most once and the block freed at most once, in this order:
   the steps that set [dropped] / [freed] only fire on an object for which they are still false *)
Definition C04_statement : Prop :=
  forall s0 sched t rec s' obs, fresh_start s0 -> bounded_run s0 sched -> live_counted s0 sched ->
  let s := mrun s0 sched in
  micro s t rec = Some (s', obs) ->
  forall o ob ob', geto s o = Some ob -> geto s' o = Some ob' ->
    (dropped ob = true -> dropped ob' = true) /\ (freed ob = true -> freed ob' = true) /\
    (dropped ob = false -> dropped ob' = true -> In 1102 obs /\ destructed (word ob) = true /\ freed ob = false) /\
    (freed ob = false -> freed ob' = true -> In 1100 obs /\ dropped ob = true).

(* C05: the DESTRUCTED flag is final; an increment (Weak::upgrade, Snapshot::counted, Rc::clone) reports
   success iff the count word it observed last was not destructed; while an owner exists it succeeds at once *)
(* the field widths are needed: on a word with all of bits 0..59 set, fetch_add(COUNT) carries into DESTRUCTED
   (Example C05_monotone_needs_bounds in RcP.v) *)
Definition C05_monotone_unbounded : Prop :=
  forall s t rec s' obs o ob ob', micro s t rec = Some (s', obs) ->
    geto s o = Some ob -> geto s' o = Some ob' -> destructed (word ob) = true -> destructed (word ob') = true.
(* the flag is final along every run from a fresh start.  (For an ARBITRARY state it is false even with the bounds:
   a frame FKid119 c wc nxt with a garbage [nxt] on a destructed object rewrites the whole word; such frames do not
   occur in reachable states, see frame_wf / Inv' in RcP.v.) *)
Definition C05_monotone_statement : Prop :=
  forall s0 sched t rec s' obs, fresh_start s0 -> bounded_run s0 sched -> live_counted s0 sched ->
  let s := mrun s0 sched in
  micro s t rec = Some (s', obs) -> bounded s' ->
  forall o ob ob', geto s o = Some ob -> geto s' o = Some ob' -> destructed (word ob) = true -> destructed (word ob') = true.

Definition C05_upgrade_statement : Prop :=
  forall s0 sched t rec s' obs x o c k, fresh_start s0 -> bounded_run s0 sched -> live_counted s0 sched ->
  let s := mrun s0 sched in
  gett s t = Some x -> (frames x = FIncS100 o c :: k \/ frames x = FIncS101 o c :: k) ->
  micro s t rec = Some (s', obs) ->
  forall ob x', geto s o = Some ob -> gett s' t = Some x' ->
    (* failure is reported exactly when the observed word is destructed *)
    (frames x' = FRet c false :: k <-> destructed (word ob) = true) /\
    (* with an owner present the call succeeds in this very step *)
    (0 < owners s o -> frames x = FIncS100 o c :: k -> frames x' = FRet c true :: k).

(* C10: the bulk constructors create an object whose strong count is exactly the number of owners handed out *)
Definition C10_statement : Prop :=
  forall s0 sched, fresh_start s0 -> bounded_run s0 sched -> live_counted s0 sched ->
  let s := mrun s0 sched in
  forall o ob, geto s o = Some ob -> destructed (word ob) = false ->
    strong (word ob) = owners s o + b2z (tok ob) /\ (owners s o = 0 -> tok ob = false -> attempts s o = 1).

(* C03: a block is not freed while a weak owner exists: an HWeak variable, or a weak share in flight inside an
   operation (the credits of [frame_weak]).  Proved in RcWeakP.v from the weak-side invariant. *)
Definition C03_statement : Prop :=
  forall s0 sched, fresh_start s0 -> bounded_run s0 sched -> live_counted s0 sched ->
  let s := mrun s0 sched in
  forall o ob, geto s o = Some ob -> 0 < wowners s o -> freed ob = false.

(* the other half of C03: a WeakSnapshot taken in the current critical section keeps the block alive.  This does NOT
   follow from the count invariants: it needs the EBR argument (try_dealloc is deferred, and a deferred function does not
   start while a critical section that was active at the deferral is still active: C13 of Ebr.v, through the [pwit]
   witnesses recorded by [defer]).  Stated here, not proved in RcWeakP.v. *)
Definition C03_wsnap_statement : Prop :=
  forall s0 sched, fresh_start s0 -> bounded_run s0 sched -> live_counted s0 sched ->
  let s := mrun s0 sched in
  forall t x l n o ob, gett s t = Some x -> In (HWSnap l n) (vars x) -> incs x = true -> n = serial x ->
    fst l = o -> geto s o = Some ob -> freed ob = false.
