(** * Executable small-step model of the Michael-Scott queue of
      src/ebr_impl/sync/queue.rs under the cooperative scheduler of the
      verification harness (sequentially consistent memory, no spurious CAS
      failure, no reclamation / address reuse inside a run).

    One [step] of thread [t] = perform the shared access of the yield site the
    thread is blocked at, then run thread-local code up to the next yield site.
    The [pc] of a thread names the yield site it is blocked at and carries the
    live registers. *)

From Coq Require Import ZArith List Bool Lia.
Import ListNotations.
Open Scope Z_scope.

(** ** Heap *)

Record node := mkNode { value : Z; next : Z (* 0 = null *) }.

Definition dummy : node := mkNode 0 0.

(** The heap is a list of nodes indexed by node id.  Index 0 is a dummy cell
    (the null pointer), index 1 is the sentinel allocated by [Queue::new]. *)
Definition getn (h : list node) (id : Z) : node := nth (Z.to_nat id) h dummy.
Definition nextof (h : list node) (id : Z) : Z := next (getn h id).
Definition valof (h : list node) (id : Z) : Z := value (getn h id).

Fixpoint upd (h : list node) (i : nat) (nx : Z) : list node :=
  match h, i with
  | [], _ => []
  | n :: r, O => mkNode (value n) nx :: r
  | n :: r, S j => n :: upd r j nx
  end.

Definition set_next (h : list node) (id nx : Z) : list node := upd h (Z.to_nat id) nx.

(** ** Programs, program counters, threads *)

Inductive op := OPush (v : Z) | OPop | OPopIf (c : Z).

(** One constructor per yield site.  Register names follow the Rust source:
    [new] the node being pushed, [onto] the tail snapshot, [nxt] a loaded
    [next] pointer, [hd] the head snapshot, [tl] the tail snapshot of the
    pop path, [c] the bound of the [try_pop_if] predicate [|x| x < c]. *)
Inductive pc :=
| PStart                         (* thread not started yet *)
| PDone                          (* program finished *)
| POp                            (* site 1: before the next operation / end *)
| P30 (new : Z)                  (* push: load tail *)
| P31 (onto new : Z)             (* push_internal: load onto.next *)
| P32 (onto nxt new : Z)         (* help: CAS tail onto -> nxt *)
| P33 (onto new : Z)             (* CAS onto.next null -> new *)
| P34 (onto new : Z)             (* CAS tail onto -> new *)
| P35                            (* pop: load head *)
| P36 (hd : Z)                   (* load hd.next *)
| P37 (hd nxt : Z)               (* CAS head hd -> nxt *)
| P38 (hd nxt : Z)               (* load tail *)
| P39 (hd nxt tl : Z)            (* CAS tail tl -> nxt *)
| P40 (c : Z)                    (* pop_if: load head *)
| P41 (c hd : Z)                 (* load hd.next, evaluate predicate *)
| P42 (c hd nxt : Z)             (* CAS head hd -> nxt *)
| P43 (c hd nxt : Z)             (* load tail *)
| P44 (c hd nxt tl : Z).         (* CAS tail tl -> nxt *)

Record thread := mkThread { tpc : pc; tops : list op }.

Record state := mkState {
  heap : list node;
  head : Z;
  tail : Z;
  fresh : Z;                     (* next fresh node id = length of heap *)
  threads : list thread
}.

Definition obs := (Z * Z * Z)%type.   (* site a b *)

Definition set_heap (s : state) (h : list node) (f : Z) : state :=
  mkState h (head s) (tail s) f (threads s).
Definition set_head (s : state) (x : Z) : state :=
  mkState (heap s) x (tail s) (fresh s) (threads s).
Definition set_tail (s : state) (x : Z) : state :=
  mkState (heap s) (head s) x (fresh s) (threads s).
Definition set_threads (s : state) (ts : list thread) : state :=
  mkState (heap s) (head s) (tail s) (fresh s) ts.

(** [tail.compare_exchange(a, b)]; the outcome is not used by the callers *)
Definition cas_tail (s : state) (a b : Z) : state :=
  if tail s =? a then set_tail s b else s.

Definition b2z (b : bool) : Z := if b then 1 else 0.

(** ** One step of one thread on the shared state.
    Returns the new shared state (its [threads] field is untouched), the new
    program counter, the remaining operations and the observations. *)
Definition step_th (s : state) (p : pc) (ops : list op)
  : option (state * pc * list op * list obs) :=
  match p with
  | PDone => None
  | PStart => Some (s, POp, ops, [])
  | POp =>
      match ops with
      | [] => Some (s, PDone, [], [(1, 9, 0)])
      | OPush v :: r =>
          let id := fresh s in
          Some (set_heap s (heap s ++ [mkNode v 0]) (id + 1), P30 id, r,
                [(1, 0, v); (1229, id, 0)])
      | OPop :: r => Some (s, P35, r, [(1, 1, 0)])
      | OPopIf c :: r => Some (s, P40 c, r, [(1, 2, c)])
      end
  (* ---- push ---- *)
  | P30 new =>
      let t := tail s in
      Some (s, P31 t new, ops, [(30, new, 0); (1230, t, 0)])
  | P31 onto new =>
      let n := nextof (heap s) onto in
      Some (s, (if n =? 0 then P33 onto new else P32 onto n new), ops,
            [(31, onto, 0); (1231, n, 0)])
  | P32 onto n new =>
      Some (cas_tail s onto n, P30 new, ops, [(32, onto, n)])
  | P33 onto new =>
      if nextof (heap s) onto =? 0
      then Some (set_heap s (set_next (heap s) onto new) (fresh s), P34 onto new, ops,
                 [(33, onto, new)])
      else Some (s, P30 new, ops, [(33, onto, new)])
  | P34 onto new =>
      Some (cas_tail s onto new, POp, ops, [(34, onto, new); (2000, 2, 0)])
  (* ---- try_pop ---- *)
  | P35 =>
      let h := head s in
      Some (s, P36 h, ops, [(35, 0, 0); (1235, h, 0)])
  | P36 h =>
      let n := nextof (heap s) h in
      if n =? 0
      then Some (s, POp, ops, [(36, h, 0); (1236, n, 0); (2000, 0, 0)])
      else Some (s, P37 h n, ops, [(36, h, 0); (1236, n, 0)])
  | P37 h n =>
      if head s =? h
      then Some (set_head s n, P38 h n, ops, [(37, h, n)])
      else Some (s, P35, ops, [(37, h, n)])
  | P38 h n =>
      let t := tail s in
      if h =? t
      then Some (s, P39 h n t, ops, [(38, 0, 0); (1238, t, 0)])
      else Some (s, POp, ops, [(38, 0, 0); (1238, t, 0); (2000, 1, valof (heap s) n)])
  | P39 h n t =>
      Some (cas_tail s t n, POp, ops, [(39, t, n); (2000, 1, valof (heap s) n)])
  (* ---- try_pop_if (|x| x < c) ---- *)
  | P40 c =>
      let h := head s in
      Some (s, P41 c h, ops, [(40, 0, 0); (1240, h, 0)])
  | P41 c h =>
      let n := nextof (heap s) h in
      if n =? 0
      then Some (s, POp, ops, [(41, h, 0); (1241, n, 0); (2000, 0, 0)])
      else
        let v := valof (heap s) n in
        if v <? c
        then Some (s, P42 c h n, ops, [(41, h, 0); (1241, n, 0); (2001, v, 1)])
        else Some (s, POp, ops, [(41, h, 0); (1241, n, 0); (2001, v, 0); (2000, 0, 0)])
  | P42 c h n =>
      if head s =? h
      then Some (set_head s n, P43 c h n, ops, [(42, h, n)])
      else Some (s, P40 c, ops, [(42, h, n)])
  | P43 c h n =>
      let t := tail s in
      if h =? t
      then Some (s, P44 c h n t, ops, [(43, 0, 0); (1243, t, 0)])
      else Some (s, POp, ops, [(43, 0, 0); (1243, t, 0); (2000, 1, valof (heap s) n)])
  | P44 c h n t =>
      Some (cas_tail s t n, POp, ops, [(44, t, n); (2000, 1, valof (heap s) n)])
  end.

Fixpoint set_nth {A} (l : list A) (i : nat) (x : A) : list A :=
  match l, i with
  | [], _ => []
  | _ :: r, O => x :: r
  | y :: r, S j => y :: set_nth r j x
  end.

(** Structured step: observations as triples. *)
Definition stepT (s : state) (t : nat) : option (state * list obs) :=
  match nth_error (threads s) t with
  | None => None
  | Some th =>
      match step_th s (tpc th) (tops th) with
      | None => None
      | Some (s', p', ops', o) =>
          Some (set_threads s' (set_nth (threads s) t (mkThread p' ops')), o)
      end
  end.

Fixpoint flat (o : list obs) : list Z :=
  match o with
  | [] => []
  | (a, b, c) :: r => a :: b :: c :: flat r
  end.

(** The step function: [None] if thread [t] does not exist or has finished. *)
Definition step (s : state) (t : nat) : option (state * list Z) :=
  match stepT s t with
  | None => None
  | Some (s', o) => Some (s', flat o)
  end.

(** ** Program decoding: [-1] begins a thread; [0 v] push, [1] try_pop,
    [2 c] try_pop_if.  [decode] returns the operations seen before the first
    [-1] (ignored by [init]) followed by one list per thread. *)
Definition cons_op (o : op) (ts : list (list op)) : list (list op) :=
  match ts with
  | [] => [[o]]
  | t :: r => (o :: t) :: r
  end.

Fixpoint decode (l : list Z) : list (list op) :=
  match l with
  | [] => [[]]
  | x :: r =>
      if x =? -1 then [] :: decode r
      else if x =? 0 then
        match r with
        | v :: r' => cons_op (OPush v) (decode r')
        | [] => [[]]
        end
      else if x =? 1 then cons_op OPop (decode r)
      else if x =? 2 then
        match r with
        | c :: r' => cons_op (OPopIf c) (decode r')
        | [] => [[]]
        end
      else decode r
  end.

Definition init (prog : list Z) : state :=
  mkState [dummy; mkNode 0 0] 1 1 2
          (map (mkThread PStart) (tl (decode prog))).

(** ** Replaying a schedule *)
Fixpoint replay_from (s : state) (sched : list Z) : list (list Z) :=
  match sched with
  | [] => []
  | t :: r =>
      if t <? 0 then [-999] :: replay_from s r
      else match step s (Z.to_nat t) with
           | Some (s', o) => o :: replay_from s' r
           | None => [-999] :: replay_from s r
           end
  end.

Definition replay (prog sched : list Z) : list (list Z) :=
  replay_from (init prog) sched.
