(* GuardSeq.v -- model M6: ONE thread's sequential view of the EBR participant (`Local`) of
   /repo/src/ebr_impl/{internal,guard,collector,default}.rs on a PRIVATE collector.

   Executable Gallina, total functions, stdlib only.  Every function below is named after the
   Rust function it transcribes; the comments quote the Rust lines.  The model is tied to the
   code by the differential stream of /tmp/agent_guard/guardseq.rs (`@guard` lines are compared
   with [guard_line], `@tls` lines with [tls_line]).

   Modelling assumptions (see NOTES.md): epochs do not wrap (G far below 2^62), MAX_OBJECTS >= 1
   (a zero-capacity bag makes `Local::defer` spin forever), `Vec::with_capacity(n)` has capacity
   exactly n, the other participants of the collector (field [others]) do not move during an
   operation of this thread (sequential view), the harness keeps one `Collector` reference until
   the participant is finalized. *)
From Coq Require Import ZArith List Bool Lia.
Import ListNotations.
Local Open Scope Z_scope.

(* ------------------------------------------------------------------------------------------ *)
(* Programs                                                                                   *)
(* ------------------------------------------------------------------------------------------ *)

(* The same operation type is used for the thread's program and for closure bodies (a closure
   body addresses the guards IT created; the thread-level operations are ill-formed there). *)
Inductive op : Type :=
| Cs                                   (* handle.pin(): push a new guard on the live list     *)
| DropGuard (i : nat)                  (* drop the i-th live guard (any order)                *)
| Reactivate (i : nat)                 (* guard_i.reactivate()                                *)
| ReactivateAfter (i : nat) (panics : bool) (* guard_i.reactivate_after(|| {}) / (|| panic!()) *)
| Flush (i : nat)                      (* guard_i.flush()                                     *)
| Defer (i : nat) (id : Z) (body : list op)  (* defer, through guard i, closure `id` that runs `body` *)
| DropHandle                           (* LocalHandle::drop                                   *)
| DropCollector                        (* the harness drops its last Collector reference      *)
| Probe.                               (* closure bodies only: report the announced epoch e as
                                          the pseudo id -(10 + e) among the executed closures *)

Inductive clo : Type := Clo (id : Z) (body : list op).
Definition cid (c : clo) : Z := match c with Clo id _ => id end.
Definition cbody (c : clo) : list op := match c with Clo _ b => b end.

(* the deferred destruction of a queue node (`guard.defer_destroy(head)` in
   sync/queue.rs:pop_if_internal): id 0, empty body, never reported in the observations *)
Definition node_clo : clo := Clo 0 [].

Inductive res (A : Type) : Type :=
| Ok (a : A)
| Err (code : Z).
Arguments Ok {A} a.
Arguments Err {A} code.

Definition bind {A B} (r : res A) (f : A -> res B) : res B :=
  match r with Ok a => f a | Err c => Err c end.

(* error codes: the explicit "stuck" outcomes of the model *)
Definition E_OVERFLOW  : Z := 1.  (* guard_count.checked_add(1).unwrap() panics                 *)
Definition E_NOGUARD   : Z := 2.  (* the program names a guard that is not live                 *)
Definition E_DEAD      : Z := 3.  (* operation on a finalized participant / Cs without a handle *)
Definition E_NOHANDLE  : Z := 4.  (* DropHandle twice                                           *)
Definition E_INBODY    : Z := 5.  (* thread-level operation inside a closure body               *)
Definition E_COLLECTOR : Z := 6.  (* DropCollector before finalization / twice                  *)
Definition E_LEVEL     : Z := 9.  (* nesting fuel of the definition of [unpin] exhausted        *)
Definition E_LOOP      : Z := 10. (* fuel of the `while must_collect` loop exhausted            *)

(* usize::MAX *)
Definition MAXC : Z := 18446744073709551615.
(* Global::COLLECTS_TRIALS *)
Definition COLLECTS_TRIALS : nat := 16.
(* Local::COUNTS_BETWEEN_ADVANCE *)
Definition COUNTS_BETWEEN_ADVANCE : Z := 64.
(* SealedBag::is_expired: global_epoch.wrapping_sub(self.epoch) >= 3 *)
Definition RECLAIM_AGE : Z := 3.

(* ------------------------------------------------------------------------------------------ *)
(* State                                                                                      *)
(* ------------------------------------------------------------------------------------------ *)
(* gc, hc            Local::guard_count, Local::handle_count
   pinned, ann       the two components of Local::epoch (pinned bit, epoch value; 0 when unpinned)
   collecting, must_collect, advc (advance_count), prev (prev_epoch, -1 = Epoch::starting()),
   manc (manual_count), pinc (pin_count)      the Cell fields of Local
   bag               Local::bag   (capacity maxobj = MAX_OBJECTS)
   sealed            Global::queue (FIFO of sealed bags with their epoch), G = Global::epoch
   others            (pinned, epoch) of the other participants of the collector: a read-only frame
   live, nextg       the guards the program holds, in creation order (ids), next id
   handle_alive      the program still owns its LocalHandle
   finalized         Local::finalize has run (entry deleted, collector reference dropped)
   coll_alive        the harness still owns a Collector reference
   ghost: log (executed closures, most recent first), deferred (ids ever deferred, most recent
   first), unpins (number of stores of the unpinned epoch), finals (number of finalize calls)
   err               0, or the code of the error the program ran into *)
Record state := mkState {
  gc : Z;
  hc : Z;
  pinned : bool;
  ann : Z;
  collecting : bool;
  must_collect : bool;
  bag : list clo;
  sealed : list (Z * list clo);
  G : Z;
  advc : Z;
  prev : Z;
  manc : Z;
  pinc : Z;
  live : list Z;
  nextg : Z;
  handle_alive : bool;
  finalized : bool;
  coll_alive : bool;
  log : list Z;
  deferred : list Z;
  unpins : Z;
  finals : Z;
  maxobj : Z;
  others : list (bool * Z);
  err : Z
}.

Definition set_gc (v : Z) (s : state) : state :=
  mkState v (hc s) (pinned s) (ann s) (collecting s) (must_collect s) (bag s) (sealed s) (G s) (advc s) (prev s) (manc s) (pinc s) (live s) (nextg s) (handle_alive s) (finalized s) (coll_alive s) (log s) (deferred s) (unpins s) (finals s) (maxobj s) (others s) (err s).
Definition set_hc (v : Z) (s : state) : state :=
  mkState (gc s) v (pinned s) (ann s) (collecting s) (must_collect s) (bag s) (sealed s) (G s) (advc s) (prev s) (manc s) (pinc s) (live s) (nextg s) (handle_alive s) (finalized s) (coll_alive s) (log s) (deferred s) (unpins s) (finals s) (maxobj s) (others s) (err s).
Definition set_pinned (v : bool) (s : state) : state :=
  mkState (gc s) (hc s) v (ann s) (collecting s) (must_collect s) (bag s) (sealed s) (G s) (advc s) (prev s) (manc s) (pinc s) (live s) (nextg s) (handle_alive s) (finalized s) (coll_alive s) (log s) (deferred s) (unpins s) (finals s) (maxobj s) (others s) (err s).
Definition set_ann (v : Z) (s : state) : state :=
  mkState (gc s) (hc s) (pinned s) v (collecting s) (must_collect s) (bag s) (sealed s) (G s) (advc s) (prev s) (manc s) (pinc s) (live s) (nextg s) (handle_alive s) (finalized s) (coll_alive s) (log s) (deferred s) (unpins s) (finals s) (maxobj s) (others s) (err s).
Definition set_collecting (v : bool) (s : state) : state :=
  mkState (gc s) (hc s) (pinned s) (ann s) v (must_collect s) (bag s) (sealed s) (G s) (advc s) (prev s) (manc s) (pinc s) (live s) (nextg s) (handle_alive s) (finalized s) (coll_alive s) (log s) (deferred s) (unpins s) (finals s) (maxobj s) (others s) (err s).
Definition set_must_collect (v : bool) (s : state) : state :=
  mkState (gc s) (hc s) (pinned s) (ann s) (collecting s) v (bag s) (sealed s) (G s) (advc s) (prev s) (manc s) (pinc s) (live s) (nextg s) (handle_alive s) (finalized s) (coll_alive s) (log s) (deferred s) (unpins s) (finals s) (maxobj s) (others s) (err s).
Definition set_bag (v : list clo) (s : state) : state :=
  mkState (gc s) (hc s) (pinned s) (ann s) (collecting s) (must_collect s) v (sealed s) (G s) (advc s) (prev s) (manc s) (pinc s) (live s) (nextg s) (handle_alive s) (finalized s) (coll_alive s) (log s) (deferred s) (unpins s) (finals s) (maxobj s) (others s) (err s).
Definition set_sealed (v : list (Z * list clo)) (s : state) : state :=
  mkState (gc s) (hc s) (pinned s) (ann s) (collecting s) (must_collect s) (bag s) v (G s) (advc s) (prev s) (manc s) (pinc s) (live s) (nextg s) (handle_alive s) (finalized s) (coll_alive s) (log s) (deferred s) (unpins s) (finals s) (maxobj s) (others s) (err s).
Definition set_G (v : Z) (s : state) : state :=
  mkState (gc s) (hc s) (pinned s) (ann s) (collecting s) (must_collect s) (bag s) (sealed s) v (advc s) (prev s) (manc s) (pinc s) (live s) (nextg s) (handle_alive s) (finalized s) (coll_alive s) (log s) (deferred s) (unpins s) (finals s) (maxobj s) (others s) (err s).
Definition set_advc (v : Z) (s : state) : state :=
  mkState (gc s) (hc s) (pinned s) (ann s) (collecting s) (must_collect s) (bag s) (sealed s) (G s) v (prev s) (manc s) (pinc s) (live s) (nextg s) (handle_alive s) (finalized s) (coll_alive s) (log s) (deferred s) (unpins s) (finals s) (maxobj s) (others s) (err s).
Definition set_prev (v : Z) (s : state) : state :=
  mkState (gc s) (hc s) (pinned s) (ann s) (collecting s) (must_collect s) (bag s) (sealed s) (G s) (advc s) v (manc s) (pinc s) (live s) (nextg s) (handle_alive s) (finalized s) (coll_alive s) (log s) (deferred s) (unpins s) (finals s) (maxobj s) (others s) (err s).
Definition set_manc (v : Z) (s : state) : state :=
  mkState (gc s) (hc s) (pinned s) (ann s) (collecting s) (must_collect s) (bag s) (sealed s) (G s) (advc s) (prev s) v (pinc s) (live s) (nextg s) (handle_alive s) (finalized s) (coll_alive s) (log s) (deferred s) (unpins s) (finals s) (maxobj s) (others s) (err s).
Definition set_pinc (v : Z) (s : state) : state :=
  mkState (gc s) (hc s) (pinned s) (ann s) (collecting s) (must_collect s) (bag s) (sealed s) (G s) (advc s) (prev s) (manc s) v (live s) (nextg s) (handle_alive s) (finalized s) (coll_alive s) (log s) (deferred s) (unpins s) (finals s) (maxobj s) (others s) (err s).
Definition set_live (v : list Z) (s : state) : state :=
  mkState (gc s) (hc s) (pinned s) (ann s) (collecting s) (must_collect s) (bag s) (sealed s) (G s) (advc s) (prev s) (manc s) (pinc s) v (nextg s) (handle_alive s) (finalized s) (coll_alive s) (log s) (deferred s) (unpins s) (finals s) (maxobj s) (others s) (err s).
Definition set_nextg (v : Z) (s : state) : state :=
  mkState (gc s) (hc s) (pinned s) (ann s) (collecting s) (must_collect s) (bag s) (sealed s) (G s) (advc s) (prev s) (manc s) (pinc s) (live s) v (handle_alive s) (finalized s) (coll_alive s) (log s) (deferred s) (unpins s) (finals s) (maxobj s) (others s) (err s).
Definition set_handle_alive (v : bool) (s : state) : state :=
  mkState (gc s) (hc s) (pinned s) (ann s) (collecting s) (must_collect s) (bag s) (sealed s) (G s) (advc s) (prev s) (manc s) (pinc s) (live s) (nextg s) v (finalized s) (coll_alive s) (log s) (deferred s) (unpins s) (finals s) (maxobj s) (others s) (err s).
Definition set_finalized (v : bool) (s : state) : state :=
  mkState (gc s) (hc s) (pinned s) (ann s) (collecting s) (must_collect s) (bag s) (sealed s) (G s) (advc s) (prev s) (manc s) (pinc s) (live s) (nextg s) (handle_alive s) v (coll_alive s) (log s) (deferred s) (unpins s) (finals s) (maxobj s) (others s) (err s).
Definition set_coll_alive (v : bool) (s : state) : state :=
  mkState (gc s) (hc s) (pinned s) (ann s) (collecting s) (must_collect s) (bag s) (sealed s) (G s) (advc s) (prev s) (manc s) (pinc s) (live s) (nextg s) (handle_alive s) (finalized s) v (log s) (deferred s) (unpins s) (finals s) (maxobj s) (others s) (err s).
Definition set_log (v : list Z) (s : state) : state :=
  mkState (gc s) (hc s) (pinned s) (ann s) (collecting s) (must_collect s) (bag s) (sealed s) (G s) (advc s) (prev s) (manc s) (pinc s) (live s) (nextg s) (handle_alive s) (finalized s) (coll_alive s) v (deferred s) (unpins s) (finals s) (maxobj s) (others s) (err s).
Definition set_deferred (v : list Z) (s : state) : state :=
  mkState (gc s) (hc s) (pinned s) (ann s) (collecting s) (must_collect s) (bag s) (sealed s) (G s) (advc s) (prev s) (manc s) (pinc s) (live s) (nextg s) (handle_alive s) (finalized s) (coll_alive s) (log s) v (unpins s) (finals s) (maxobj s) (others s) (err s).
Definition set_unpins (v : Z) (s : state) : state :=
  mkState (gc s) (hc s) (pinned s) (ann s) (collecting s) (must_collect s) (bag s) (sealed s) (G s) (advc s) (prev s) (manc s) (pinc s) (live s) (nextg s) (handle_alive s) (finalized s) (coll_alive s) (log s) (deferred s) v (finals s) (maxobj s) (others s) (err s).
Definition set_finals (v : Z) (s : state) : state :=
  mkState (gc s) (hc s) (pinned s) (ann s) (collecting s) (must_collect s) (bag s) (sealed s) (G s) (advc s) (prev s) (manc s) (pinc s) (live s) (nextg s) (handle_alive s) (finalized s) (coll_alive s) (log s) (deferred s) (unpins s) v (maxobj s) (others s) (err s).
Definition set_maxobj (v : Z) (s : state) : state :=
  mkState (gc s) (hc s) (pinned s) (ann s) (collecting s) (must_collect s) (bag s) (sealed s) (G s) (advc s) (prev s) (manc s) (pinc s) (live s) (nextg s) (handle_alive s) (finalized s) (coll_alive s) (log s) (deferred s) (unpins s) (finals s) v (others s) (err s).
Definition set_others (v : list (bool * Z)) (s : state) : state :=
  mkState (gc s) (hc s) (pinned s) (ann s) (collecting s) (must_collect s) (bag s) (sealed s) (G s) (advc s) (prev s) (manc s) (pinc s) (live s) (nextg s) (handle_alive s) (finalized s) (coll_alive s) (log s) (deferred s) (unpins s) (finals s) (maxobj s) v (err s).
Definition set_err (v : Z) (s : state) : state :=
  mkState (gc s) (hc s) (pinned s) (ann s) (collecting s) (must_collect s) (bag s) (sealed s) (G s) (advc s) (prev s) (manc s) (pinc s) (live s) (nextg s) (handle_alive s) (finalized s) (coll_alive s) (log s) (deferred s) (unpins s) (finals s) (maxobj s) (others s) v.

Definition b2z (b : bool) : Z := if b then 1 else 0.

Definition init_state (mo : Z) : state :=
  mkState 0 1 false 0 false false [] [] 0 0 (-1) 0 0 [] 0 true false true [] [] 0 0 mo [] 0.

(* `handle_info`: [guard_count, handle_count, pinned bit, announced epoch value, collecting,
   must_collect, items in the local bag, manual_count] *)
Definition info (s : state) : list Z :=
  [gc s; hc s; b2z (pinned s); ann s; b2z (collecting s); b2z (must_collect s);
   Z.of_nat (length (bag s)); manc s].

(* ------------------------------------------------------------------------------------------ *)
(* Primitive functions of Local / Global (no recursion)                                       *)
(* ------------------------------------------------------------------------------------------ *)

(* Local::pin.
     let guard_count = self.guard_count.get();
     self.guard_count.set(guard_count.checked_add(1).unwrap());
     if guard_count == 0 { publish global epoch (pinned); validate -- always succeeds when no
        other thread advances concurrently;
        if new_epoch != self.prev_epoch.get() { prev_epoch = new_epoch; advance_count = 0 } } *)
Definition pin (s : state) : res state :=
  if MAXC <=? gc s then Err E_OVERFLOW else
  let s1 := set_gc (gc s + 1) s in
  if gc s =? 0 then
    let s2 := set_ann (G s) (set_pinned true s1) in
    Ok (if prev s =? G s then s2 else set_advc 0 (set_prev (G s) s2))
  else Ok s1.

(* a participant blocks the advance iff `local_epoch.is_pinned() && local_epoch.unpinned() != global_epoch` *)
Definition blocks (g : Z) (p : bool * Z) : bool := fst p && negb (snd p =? g).

(* Global::try_advance: scan all participants; advance unless one of them blocks *)
Definition try_advance (s : state) : state :=
  if blocks (G s) (pinned s, ann s) || existsb (blocks (G s)) (others s) then s
  else set_G (G s + 1) s.

(* Local::repin_without_collect: self.epoch := global_epoch.pinned() *)
Definition repin_without_collect (s : state) : state :=
  set_ann (G s) (set_pinned true s).

(* Global::push_bag: replace(bag, Bag::new()); queue.push(bag.seal(global epoch)) *)
Definition push_bag (s : state) : state :=
  set_bag [] (set_sealed (sealed s ++ [(G s, bag s)]) s).

(* Local::push_to_global: if !bag.is_empty() { push_bag } *)
Definition push_to_global (s : state) : state :=
  match bag s with [] => s | _ :: _ => push_bag s end.

(* Local::schedule_collection:
     must_collect = true; if collecting && guard_count == 1 { repin_without_collect() }
   (the guard_count test is commit ca508ba: no re-pin under a guard held by a running destructor) *)
Definition schedule_collection (s : state) : state :=
  let s1 := set_must_collect true s in
  if collecting s1 && (gc s1 =? 1) then repin_without_collect s1 else s1.

(* Local::incr_advance: advance_count += 1; every COUNTS_BETWEEN_ADVANCE-th call: try_advance *)
Definition incr_advance (s : state) : state :=
  let a := advc s + 1 in
  let s1 := set_advc a s in
  if a mod COUNTS_BETWEEN_ADVANCE =? 0 then try_advance s1 else s1.

(* Local::defer: while let Err(d) = bag.try_push(deferred) { push_bag; schedule_collection }
   (the fresh bag has room, so the loop body runs at most once); incr_advance *)
Definition defer_ (s : state) (c : clo) : state :=
  let s1 := if maxobj s <=? Z.of_nat (length (bag s))
            then schedule_collection (push_bag s) else s in
  incr_advance (set_deferred (cid c :: deferred s1) (set_bag (bag s1 ++ [c]) s1)).

(* Local::flush: push_to_global; schedule_collection *)
Definition flush (s : state) : state := schedule_collection (push_to_global s).

(* Local::acquire_handle *)
Definition acquire_handle (s : state) : state := set_hc (hc s + 1) s.

Fixpoint remove_nth {A} (i : nat) (l : list A) : list A :=
  match l with
  | [] => []
  | x :: r => match i with O => r | S i' => x :: remove_nth i' r end
  end.

(* ------------------------------------------------------------------------------------------ *)
(* Functions that (transitively) call Local::unpin.  They are written against the unpin      *)
(* function [u] they call, so that the recursion unpin -> collect -> closure -> unpin can be  *)
(* tied with a nesting fuel (two levels are ever needed, see GuardSeqP.unpin_level).          *)
(* ------------------------------------------------------------------------------------------ *)

(* Local::finalize:
     handle_count = 1; { let guard = &self.pin(); self.push_to_global(guard); } handle_count = 0;
     entry.delete(); drop(collector)   (the harness still owns a Collector: nothing else happens) *)
Definition finalize_with (u : state -> res state) (s : state) : res state :=
  let s1 := set_hc 1 s in
  bind (pin s1) (fun s2 =>
  bind (u (push_to_global s2)) (fun s3 =>
  Ok (set_finals (finals s3 + 1) (set_finalized true (set_hc 0 s3))))).

(* Local::release_handle:
     let guard_count = ..; let handle_count = ..; handle_count -= 1;
     if guard_count == 0 && handle_count == 1 { finalize } *)
Definition release_handle_with (u : state -> res state) (s : state) : res state :=
  let s1 := set_hc (hc s - 1) s in
  if (gc s =? 0) && (hc s =? 1) then finalize_with u s1 else Ok s1.

(* Local::repin (Guard::reactivate): acquire_handle; unpin; forget(pin()); release_handle *)
Definition repin_with (u : state -> res state) (s : state) : res state :=
  bind (u (acquire_handle s)) (fun s1 =>
  bind (pin s1) (fun s2 => release_handle_with u s2)).

(* Guard::reactivate_after(f): acquire_handle; unpin; [scopeguard: pin; release_handle] f()
   The scope guard runs on normal return and during unwinding alike, and f is empty: the
   transition does not depend on [panics]. *)
Definition reactivate_after_with (u : state -> res state) (s : state) (panics : bool) : res state :=
  bind (u (acquire_handle s)) (fun s1 =>
  (* f() runs here (empty body; it returns or panics) *)
  bind (pin s1) (fun s2 => release_handle_with u s2)).

(* one operation on the guard list [lg] (the program's live list, or the guards of a running
   closure body) *)
Definition gstep (u : state -> res state) (s : state) (lg : list Z) (o : op)
  : res (state * list Z) :=
  match o with
  | Cs => bind (pin s) (fun s1 => Ok (set_nextg (nextg s1 + 1) s1, lg ++ [nextg s1]))
  | DropGuard i =>
      match nth_error lg i with
      | None => Err E_NOGUARD
      | Some _ => bind (u s) (fun s1 => Ok (s1, remove_nth i lg))
      end
  | Reactivate i =>
      match nth_error lg i with
      | None => Err E_NOGUARD
      | Some _ => bind (repin_with u s) (fun s1 => Ok (s1, lg))
      end
  | ReactivateAfter i p =>
      match nth_error lg i with
      | None => Err E_NOGUARD
      | Some _ => bind (reactivate_after_with u s p) (fun s1 => Ok (s1, lg))
      end
  | Flush i =>
      match nth_error lg i with
      | None => Err E_NOGUARD
      | Some _ => Ok (flush s, lg)
      end
  | Defer i id body =>
      match nth_error lg i with
      | None => Err E_NOGUARD
      | Some _ => Ok (defer_ s (Clo id body), lg)
      end
  | DropHandle => Err E_INBODY
  | DropCollector => Err E_INBODY
  | Probe => Ok (set_log ((- 10 - Z.abs (ann s)) :: log s) s, lg)
  end.

Section Level.
  (* Local::unpin one nesting level down: used by closure bodies and by finalize *)
  Variable unpin_rec : state -> res state.

  Fixpoint run_body (s : state) (lg : list Z) (ops : list op) : res (state * list Z) :=
    match ops with
    | [] => Ok (s, lg)
    | o :: r => bind (gstep unpin_rec s lg o) (fun p => run_body (fst p) (snd p) r)
    end.

  (* the guards a closure body still holds when it returns are dropped (Vec<Guard> drop order) *)
  Fixpoint drop_all (s : state) (lg : list Z) : res state :=
    match lg with
    | [] => Ok s
    | _ :: r => bind (unpin_rec s) (fun s1 => drop_all s1 r)
    end.

  (* Deferred::call of one closure *)
  Definition run_clo (s : state) (c : clo) : res state :=
    bind (run_body (set_log (cid c :: log s) s) [] (cbody c)) (fun p => drop_all (fst p) (snd p)).

  (* Bag::drop: for deferred in self.0.drain(..) { deferred.call() } *)
  Fixpoint run_bag (s : state) (b : list clo) : res state :=
    match b with
    | [] => Ok s
    | c :: r => bind (run_clo s c) (fun s1 => run_bag s1 r)
    end.

  (* the loop of Global::collect:
       for _ in 0..COLLECTS_TRIALS { match queue.try_pop_if(is_expired(global epoch)) {
            None => break, Some(bag) => drop(bag) } }
     try_pop_if defers the destruction of the old sentinel node through the guard
     (`guard.defer_destroy(head)`) BEFORE the popped bag is returned and dropped. *)
  Fixpoint trials (n : nat) (s : state) : res state :=
    match n with
    | O => Ok s
    | S n' =>
        match sealed s with
        | [] => Ok s
        | (e, b) :: rest =>
            if RECLAIM_AGE <=? G s - e then
              bind (run_bag (defer_ (set_sealed rest s) node_clo) b) (trials n')
            else Ok s
        end
    end.

  (* Global::collect: manual_count = 0; pin_count = 0; try_advance; the loop *)
  Definition collect (s : state) : res state :=
    trials COLLECTS_TRIALS (try_advance (set_pinc 0 (set_manc 0 s))).

  (* while self.must_collect.get() { must_collect = false; collect(guard); repin_without_collect() } *)
  Fixpoint coll_loop (k : nat) (s : state) : res state :=
    if must_collect s then
      match k with
      | O => Err E_LOOP
      | S k' => bind (collect (set_must_collect false s))
                     (fun s1 => coll_loop k' (repin_without_collect s1))
      end
    else Ok s.

  (* Local::unpin:
       let guard_count = self.guard_count.get();
       if guard_count == 1 && !collecting { collecting = true; while ..; collecting = false }
       self.guard_count.set(guard_count - 1);            // the value read at the top
       if guard_count == 1 { epoch := starting; if handle_count == 0 { finalize } } *)
  Definition unpin_lvl (loopfuel : nat) (s : state) : res state :=
    let g0 := gc s in
    bind (if (g0 =? 1) && negb (collecting s)
          then bind (coll_loop loopfuel (set_collecting true s))
                    (fun s' => Ok (set_collecting false s'))
          else Ok s) (fun s1 =>
    let s2 := set_gc (g0 - 1) s1 in
    if g0 =? 1 then
      let s3 := set_unpins (unpins s2 + 1) (set_ann 0 (set_pinned false s2)) in
      if hc s3 =? 0 then finalize_with unpin_rec s3 else Ok s3
    else Ok s2).
End Level.

(* fuel of the `while must_collect` loop; GuardSeqP.coll_loop_fuel shows that
   4*#sealed bags + 3*#bag items + 4*size of the pending closure bodies + 1 iterations suffice *)
(* built by N.iter (recursion depth logarithmic) so that the extracted constant does not need a deep stack *)
Definition LOOPFUEL : nat := N.iter 1048576 S O.

Fixpoint unpin_at (level : nat) : state -> res state :=
  match level with
  | O => fun _ => Err E_LEVEL
  | S l => unpin_lvl (unpin_at l) LOOPFUEL
  end.

Definition LEVELS : nat := 3.
Definition unpin : state -> res state := unpin_at LEVELS.

(* Queue::drop when the last Collector reference goes away: every remaining sealed bag is
   dropped, in FIFO order (the harness has disabled the closure bodies: the participant is gone) *)
Definition teardown (s : state) : state :=
  set_sealed [] (set_log (rev (map cid (concat (map snd (sealed s)))) ++ log s) s).

(* ------------------------------------------------------------------------------------------ *)
(* The thread's step                                                                          *)
(* ------------------------------------------------------------------------------------------ *)
Definition step_res (s : state) (o : op) : res state :=
  if finalized s then
    match o with
    | DropCollector =>
        if coll_alive s then Ok (teardown (set_coll_alive false s)) else Err E_COLLECTOR
    | _ => Err E_DEAD
    end
  else
    match o with
    | DropHandle =>
        (* LocalHandle::drop = Local::release_handle *)
        if handle_alive s then release_handle_with unpin (set_handle_alive false s)
        else Err E_NOHANDLE
    | DropCollector => Err E_COLLECTOR
    | Probe => Err E_INBODY
    | Cs =>
        if handle_alive s
        then bind (gstep unpin s (live s) Cs) (fun p => Ok (set_live (snd p) (fst p)))
        else Err E_DEAD
    | _ => bind (gstep unpin s (live s) o) (fun p => Ok (set_live (snd p) (fst p)))
    end.

(* ids of the user closures executed between [s] and [s'] (and the probes), in execution order *)
Definition executed (s s' : state) : list Z :=
  filter (fun x => (0 <? x) || (x <=? -10)) (rev (firstn (length (log s') - length (log s)) (log s'))).

(* step with observations: the 8 numbers of handle_info after the operation, then the ids of
   the closures executed during the operation.  A state with err <> 0 is stuck for good. *)
Definition step (s : state) (o : op) : state * list Z :=
  if err s =? 0 then
    match step_res s o with
    | Ok s' => (s', info s' ++ executed s s')
    | Err c => (set_err c s, [-2; c])
    end
  else (s, [-2; err s]).

Fixpoint run_obs (s : state) (p : list op) : state * list Z :=
  match p with
  | [] => (s, [])
  | o :: r =>
      let (s1, ob) := step s o in
      let (s2, obs) := run_obs s1 r in
      (s2, ob ++ (-1) :: obs)
  end.

Fixpoint run (s : state) (p : list op) : state :=
  match p with
  | [] => s
  | o :: r => run (fst (step s o)) r
  end.

(* ------------------------------------------------------------------------------------------ *)
(* Encoded programs                                                                           *)
(*   1 | 2 i | 3 i | 4 i p | 5 i | 6 i id n <n integers: the encoded body> | 7 | 8 | 9        *)
(* ------------------------------------------------------------------------------------------ *)
Fixpoint parse (fuel : nat) (l : list Z) : list op :=
  match fuel with
  | O => []
  | S f =>
      match l with
      | 1 :: r => Cs :: parse f r
      | 2 :: i :: r => DropGuard (Z.to_nat i) :: parse f r
      | 3 :: i :: r => Reactivate (Z.to_nat i) :: parse f r
      | 4 :: i :: p :: r => ReactivateAfter (Z.to_nat i) (negb (p =? 0)) :: parse f r
      | 5 :: i :: r => Flush (Z.to_nat i) :: parse f r
      | 6 :: i :: id :: n :: r =>
          Defer (Z.to_nat i) id (parse f (firstn (Z.to_nat n) r)) :: parse f (skipn (Z.to_nat n) r)
      | 7 :: r => DropHandle :: parse f r
      | 8 :: r => DropCollector :: parse f r
      | 9 :: r => Probe :: parse f r
      | _ => []
      end
  end.

(* input: MAX_OBJECTS followed by the encoded program; output: the observations of all
   operations, separated (terminated) by -1 *)
Definition guard_line (l : list Z) : list Z :=
  match l with
  | [] => []
  | mo :: r => snd (run_obs (init_state mo) (parse (length r) r))
  end.

(* ------------------------------------------------------------------------------------------ *)
(* C20: the thread-local participant handle of default.rs                                     *)
(*   thread_local! { static HANDLE: LocalHandle = collector().register(); }                   *)
(*   with_handle(f) = HANDLE.try_with(f).unwrap_or_else(|_| f(&collector().register()))       *)
(* A tiny counting model: where does every deferred destruction go.                           *)
(* ------------------------------------------------------------------------------------------ *)
Inductive hstate : Type := HUninit | HAlive | HDestroyed.

(* primitive calls a thread-local destructor makes *)
Inductive tcall : Type :=
| TEnter                 (* let g = circ::cs()           (pushed on the destructor's guard list) *)
| TLeave (i : nat)       (* drop the i-th open guard                                             *)
| TFlush (i : nat)       (* g_i.flush()                                                          *)
| TReact (i : nat)       (* g_i.reactivate() / g_i.reactivate_after(|| ())                       *)
| TRelease.              (* drop(Rc<T>) / drop(Rc::new(..)): decrement_strong(.., None) pins on
                            its own (`trigger_recl(&cs())`), defers one try_destruct, unpins     *)

(* an open guard belongs to the thread's HANDLE participant (None) or to a participant that was
   registered for this one `cs()` call because HANDLE is being / has been destroyed (Some n: the
   number of items in that participant's bag) *)
Record tstate := mkT {
  th : hstate;
  tguards : list (option Z);
  tbag : Z;        (* items owned by the HANDLE participant (local bag), not yet handed over *)
  hguards : Z;     (* open guards of the HANDLE participant                                 *)
  tglobal : Z;     (* items in sealed bags of the global queue: any thread can collect them *)
  treleased : Z;   (* objects released by the destructors                                   *)
  tfallbacks : Z;  (* participants registered by the fallback path                          *)
  tstuck : bool    (* ill-formed script (guard index out of range)                          *)
}.

Definition t_enter (t : tstate) : tstate :=
  match th t with
  | HDestroyed =>
      (* register(); pin(); the temporary LocalHandle is dropped at the end of with_handle:
         handle_count = 0 while the guard lives *)
      mkT (th t) (tguards t ++ [Some 0]) (tbag t) (hguards t) (tglobal t) (treleased t) (tfallbacks t + 1) (tstuck t)
  | _ =>
      (* HUninit: lazy initialisation (its destructor is registered and runs later) *)
      mkT HAlive (tguards t ++ [None]) (tbag t) (hguards t + 1) (tglobal t) (treleased t) (tfallbacks t) (tstuck t)
  end.

Fixpoint set_nth {A} (i : nat) (v : A) (l : list A) : list A :=
  match l with
  | [] => []
  | x :: r => match i with O => v :: r | S i' => x :: set_nth i' v r end
  end.

Definition t_leave (i : nat) (t : tstate) : tstate :=
  match nth_error (tguards t) i with
  | None => mkT (th t) (tguards t) (tbag t) (hguards t) (tglobal t) (treleased t) (tfallbacks t) true
  | Some None =>
      mkT (th t) (remove_nth i (tguards t)) (tbag t) (hguards t - 1) (tglobal t) (treleased t) (tfallbacks t) (tstuck t)
  | Some (Some n) =>
      (* last guard of a participant without handle: unpin -> finalize -> push_to_global *)
      mkT (th t) (remove_nth i (tguards t)) (tbag t) (hguards t) (tglobal t + n) (treleased t) (tfallbacks t) (tstuck t)
  end.

(* flush: the bag of the guard's participant is sealed and pushed to the global queue *)
Definition t_flush (i : nat) (t : tstate) : tstate :=
  match nth_error (tguards t) i with
  | None => mkT (th t) (tguards t) (tbag t) (hguards t) (tglobal t) (treleased t) (tfallbacks t) true
  | Some None =>
      mkT (th t) (tguards t) 0 (hguards t) (tglobal t + tbag t) (treleased t) (tfallbacks t) (tstuck t)
  | Some (Some n) =>
      mkT (th t) (set_nth i (Some 0) (tguards t)) (tbag t) (hguards t) (tglobal t + n) (treleased t) (tfallbacks t) (tstuck t)
  end.

Definition t_react (i : nat) (t : tstate) : tstate :=
  match nth_error (tguards t) i with
  | None => mkT (th t) (tguards t) (tbag t) (hguards t) (tglobal t) (treleased t) (tfallbacks t) true
  | Some _ => t   (* acquire_handle keeps the participant alive across the unpin: nothing moves *)
  end.

(* one item deferred through the youngest guard *)
Definition t_defer_last (t : tstate) : tstate :=
  let i := (length (tguards t) - 1)%nat in
  match nth_error (tguards t) i with
  | None => t
  | Some None =>
      mkT (th t) (tguards t) (tbag t + 1) (hguards t) (tglobal t) (treleased t + 1) (tfallbacks t) (tstuck t)
  | Some (Some n) =>
      mkT (th t) (set_nth i (Some (n + 1)) (tguards t)) (tbag t) (hguards t)
          (tglobal t) (treleased t + 1) (tfallbacks t) (tstuck t)
  end.

Definition t_call (t : tstate) (c : tcall) : tstate :=
  match c with
  | TEnter => t_enter t
  | TLeave i => t_leave i t
  | TFlush i => t_flush i t
  | TReact i => t_react i t
  | TRelease =>
      let t1 := t_defer_last (t_enter t) in
      t_leave (length (tguards t1) - 1) t1
  end.

(* destruction of HANDLE: LocalHandle::drop -> release_handle -> finalize -> push_to_global *)
Definition t_destroy_handle (t : tstate) : tstate :=
  match th t with
  | HAlive => mkT HDestroyed (tguards t) 0 (hguards t) (tglobal t + tbag t) (treleased t) (tfallbacks t) (tstuck t)
  | _ => t
  end.

(* what the api-kinds of the `@tls` stream do (guardseq.rs, impl Drop for UserObj) *)
Definition tls_kind (k : Z) : list tcall :=
  match k with
  | 0 => [TEnter; TLeave 0]
  | 1 => [TEnter; TFlush 0; TLeave 0]
  | 2 => [TRelease; TRelease; TRelease]
  | 3 => [TRelease; TRelease]
  | 4 => [TEnter; TEnter; TRelease; TLeave 0; TRelease; TFlush 0; TLeave 0]
  | 5 => [TEnter; TRelease; TFlush 0; TReact 0; TReact 0; TLeave 0]
  | 6 => [TRelease; TEnter; TFlush 0; TLeave 0; TRelease; TEnter; TFlush 0; TLeave 0;
          TRelease; TEnter; TFlush 0; TLeave 0; TRelease; TEnter; TFlush 0; TLeave 0;
          TRelease; TEnter; TFlush 0; TLeave 0]
  | _ => []
  end.

Definition t_init : tstate := mkT HUninit [] 0 0 0 0 0 false.

(* order 0: HANDLE is initialised before the user's thread-local: the user's destructor runs
            first (HANDLE alive), then HANDLE's;
   order 1: HANDLE is initialised after it: HANDLE is destroyed first, the user's destructor
            falls back to one-shot registrations;
   order 2: the thread never touched HANDLE: the user's destructor initialises it lazily, it is
            destroyed afterwards (std runs destructors registered during destruction) *)
Definition tls_thread (order : Z) (calls : list tcall) : tstate :=
  let body := fun t => fold_left t_call calls t in
  if order =? 0 then t_destroy_handle (body (t_leave 0 (t_enter t_init)))
  else if order =? 1 then t_destroy_handle (body (t_destroy_handle (t_leave 0 (t_enter t_init))))
  else t_destroy_handle (body t_init).

(* input: MAX_OBJECTS order kind..; output: objects released by the destructors, objects that
   reached the global queue (= will be destructed by the collections of any other thread) *)
Definition tls_line (l : list Z) : list Z :=
  match l with
  | _ :: order :: kinds =>
      let t := tls_thread order (concat (map tls_kind kinds)) in
      if tstuck t then [-2] else [treleased t; tglobal t]
  | _ => []
  end.
