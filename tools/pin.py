#!/usr/bin/env python3
"""pin.py <ProofModule> <ModelModules,comma> <out.v> <Cxx> name[=newname] ...
Generates a Properties file with pinned statements: asks Coq for the statement of each theorem
(`Check`), and writes `Theorem Cxx_name : <statement>. Proof. exact M.name. Qed. Print Assumptions`.
The generated file is committed; from then on the statement is fixed text."""
import re, subprocess, sys, os
proof, models, out, pid = sys.argv[1:5]
names = sys.argv[5:]
coq = os.path.join(os.path.dirname(os.path.abspath(__file__)), '..', 'coq')
imports = "From Coq Require Import ZArith List Bool Lia Arith.\nImport ListNotations.\nRequire Import %s %s.\n" % (" ".join(models.split(',')), proof)
script = imports + "Local Open Scope Z_scope.\nSet Printing Width 110.\nSet Printing Depth 1000.\n" + "".join("Check %s.\n" % n.split('=')[0] for n in names)
open('/tmp/pin_q.v', 'w').write(script)
r = subprocess.run("coqc -R . Circ /tmp/pin_q.v", shell=True, cwd=coq, stdout=subprocess.PIPE, stderr=subprocess.STDOUT)
txt = r.stdout.decode()
if r.returncode != 0:
    print(txt); sys.exit(1)
body = "(* %s -- pinned statements only (generated once by tools/pin.py from `Check`, then fixed); proofs in %s.v *)\n" % (pid, proof) + imports + "Local Open Scope Z_scope.\n\n"
for n in names:
    old, new = (n.split('=') + [None])[:2]
    new = new or (old if old.startswith(pid) else pid + "_" + old)
    m = re.search(r"^%s\s*\n?\s*:\s*(.*?)(?=^\S|\Z)" % re.escape(old), txt, re.S | re.M)
    if not m:
        print("no Check output for", old); sys.exit(1)
    stmt = m.group(1).rstrip()
    body += "Theorem %s :\n  %s.\nProof. exact %s.%s. Qed.\nPrint Assumptions %s.\n\n" % (new, stmt, proof, old, new)
open(out, 'w').write(body)
print("wrote", out)
