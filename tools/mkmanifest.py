#!/usr/bin/env python3
"""Writes /verif/MANIFEST.json from the table below (kept in one place so it stays valid)."""
import json, os
V = os.path.dirname(os.path.dirname(os.path.abspath(__file__)))

TB = ("Trusted base: Coq 8.16.1 kernel (no native_compute); no axioms (every pinned theorem prints 'Closed under the global context'); "
      "extraction with ExtrOcamlBasic only + hand-written ocaml/driver.ml (zarith for parsing); the cfg(circ_verif) hooks/shims in /repo, "
      "harness/ (cooperative scheduler, generators, canonicaliser). ")

C = {}
def add(pid, text, note, technique, ref=None):
    C[pid] = dict(text=text, note=TB + note, technique=technique, ref=ref or ("DESIGN.md section 4 " + pid))

add("C08", "Theorems about the hand-written model Cell.v (strong kind) for all programs and all schedules: inductive invariant (inside a CAS loop expected_raw stays ptr_eq to the original expected), forward simulation to a sequential (addr, tag) cell with fixed linearisation points, compare_exchange answers Ok iff the cell's address and tag equal expected's for arbitrary timestamps, exact ownership deltas, tags stored modulo 2^k (via the C11 theorems on the generated Tagged). Tied to the code by replaying the same program+schedule in the extracted model and in the real AtomicRc under a cooperative scheduler (sites 121..123), 16 epoch residues, plus model-independent monitors (destructor counts at quiescence, Err-although-ptr_eq, tag round trip).",
    "Model hand-written; tie is sampled (correspondence testing validates the model, it proves nothing). SC only. Count-word updates are atomic inside the cell step here. Retry-loop termination not claimed.",
    "Coq proof (invariant + forward simulation) over hand-written model + schedule-driven correspondence")
add("C09", "Same development as C08 instantiated at the weak kind (AtomicWeak stores the word it is given and its CAS retries while only the timestamp differs): C09_cas_iff, C09_sim, C09_ownership, C09_tag. Tied to the real AtomicWeak (sites 124..126) with every provenance of the expected WeakSnapshot (loaded from the cell, downgraded from a Snapshot loaded from an AtomicRc at another epoch, taken from a Weak). The defect D3 (raw-word comparison) was found here and repaired by fix commit bbd6cc3; its witness stays in the stream as a regression case.",
    "Model hand-written; tie sampled. SC only. Weak-count updates atomic inside the cell step. Retry-loop termination not claimed.",
    "Coq proof (invariant + forward simulation) over hand-written model + schedule-driven correspondence")
add("C11", "Theorems (all k in 0..12, all addresses below 2^60, all tags and timestamps) about the Gallina image of Tagged<T> that tools/rs2v.py regenerates from src/ebr_impl/pointers.rs on every run; the translator is cross-checked by running the extracted definitions and the real functions (through the shim) on the same ~230k inputs, and the property is also evaluated directly on the implementation over that grid to produce a concrete failing input when something breaks.",
    "tools/rs2v.py is trusted for the Rust subset it handles (cross-checked by the differential stream). Public accessors of Rc/Snapshot/Weak/WeakSnapshot are one-line delegations to Tagged and are covered by the stream, not a theorem.",
    "Coq proof over translator-generated model + differential check")
add("C12", "Theorems about the Gallina image of State, Modular and the reclaim/merge expressions of dispose_general_node regenerated from src/utils.rs on every run: field independence of every updater for all in-range words, soundness of the wrap-around test for every age >= -2 and every epoch < 2^62 against the generated threshold, completeness on the unambiguous window, exactness/conservativeness of the merged stamp. Translator cross-checked by ~600k differential lines incl. an exhaustive residue sweep; property also evaluated on the implementation directly.",
    "tools/rs2v.py trusted (cross-checked). Wrapping (release) semantics for unsigned arithmetic with explicit range hypotheses; isize arithmetic assumed not to overflow (epochs < 2^62).",
    "Coq proof over translator-generated model + differential check")
add("C13", "Theorems about the hand-written model Ebr.v of the EBR core, for every number of participants, every program (incl. deferred functions whose bodies pin/flush/defer) and every schedule of its one-access steps: an inductive invariant of the micro-step relation (announcement bounds, scan clauses of in-flight try_advance calls, stamps of bags in every place) from which C13_grace follows: whenever a deferred function runs, no critical section recorded as active when it was deferred is still active (witness sets are recorded by the model at defer time and characterised by witnesses_iff). Needs 2 <= EXPIRE_AFTER of the generated constants. Tied to the code by exact step-by-step replay of the real collector under the cooperative scheduler (sites 10..23) plus a model-independent trace monitor for the same property.",
    "Model hand-written; tie sampled. SC only. Queue/registry atomic (C17/C18). Critical section = outermost user guard; guards created inside a deferred function that runs during collection are an excluded class (finding D8). Defensive guards of the model are validated by the correspondence only.",
    "Coq proof (inductive invariant over all schedules) over hand-written model + schedule-driven correspondence")
add("C14", "Theorems about Ebr.v for all programs and schedules: the global epoch never decreases and moves by at most one per transition (C14_monotone), every validated-pinned participant has ann <= G <= ann+1 at every micro-step, also across repin_without_collect (C14_skew), and the announcement of a participant inside a critical section never changes (C14_ann_stable); plus machine-level lemmas about the generated image of epoch.rs (successor/pinned/unpinned/value/wrapping_sub/is_expired agree with +1, the flag and subtraction below 2^62). Tied to the code by exact replay (sites 10..23), a trace monitor (observed epochs monotone; within one of every pinned thread) and the pure differential stream for Epoch.",
    "Model hand-written (Ebr.v) / generated (EpochW.v); tie sampled. SC only: the Relaxed loads/stores and the x86 lock-cmpxchg-as-fence of pin are outside the model.",
    "Coq proof (inductive invariant over all schedules) over hand-written model + schedule-driven correspondence")
add("C15", "Safety half proved, progress half partial. Proved (Coq, every program incl. closures that defer again, every number of participants, every schedule): the multiset of deferred-function ids held in programs, continuation frames, thread-local bags, the global queue of sealed bags and the list of executed ids is invariant under every transition of Ebr.v (C15_micro_conserves) - nothing is lost, duplicated or invented; with distinct ids no function runs twice and each id is always either executed exactly once or held in exactly one place (C15_exactly_once); a function is only ever executed by the transition that takes it out of a popped bag (C15_micro_runs). Progress: a sequential drain theorem (C15_drain: other participants idle, length(queue)+3 pin/flush/unpin rounds execute everything, empty bodies) and try_advance_increments; no concurrent liveness theorem. Tied to the code by exact replay of the real collector (every execution 2010 is an observation compared step by step), an implementation-side exactly-once and quiescence monitor (executed = deferred after the handles are released and the survivor runs rounds), and the c15 stream for what the model does not contain: thread exit with pending garbage in five release orders, bag overflow, inline vs boxed closure storage (captures 0..4096 bytes, alignments up to 64) with checksummed captured data.",
    "Model hand-written; tie sampled. Thread exit is not in Ebr.v (it is in the sequential guard model of C20 and in the c15 stream). Liveness under concurrency is tested, not proved.",
    "Coq proof (conservation invariant, exactly-once corollaries, sequential drain) over hand-written model + schedule-driven correspondence + implementation-side exit/closure-storage stream")
add("C16", "Theorems about the hand-written sequential model GuardSeq.v of one participant (functions transcribed one-to-one from internal.rs / guard.rs), for every well-formed program incl. closures whose bodies use the API during collection: at every operation boundary the thread is pinned iff a guard is live and guard_count equals the number of live guards, also at every prefix of every closure body (C16_pinned_iff, C16_pinned_in_closure); reactivate / reactivate_after store the unpinned epoch exactly once iff called on the sole live guard, and leave the thread pinned with all counts restored - also when the closure panics (C16_reactivate, C16_reactivate_panic); the participant is finalized only by the release of the last handle/guard (C16_no_finalize_midway); the records of other participants are never written (C16_frame). Tied to the code by running generated programs on the real participant and through the extracted model (every observable must agree), in a release build and in a build with the crate's debug assertions on, plus direct checks on the implementation after every operation.",
    "Model hand-written and sequential (one participant); tie sampled. 'Other threads are unaffected' is proved as a frame property of the model; concurrent behaviour is C13/C14's model. The panic path is exercised by the harness (catch_unwind), its model transition is by definition.",
    "Coq proof (invariant at operation boundaries and inside collections) over hand-written sequential model + differential correspondence in two build profiles")
add("C20", "Partial (the logical half). Theorems about GuardSeq.v for every well-formed program: no stuck state, no counter overflow, and the `while must_collect` loop terminates (potential argument) for programs up to 2^18 operations with MAX_OBJECTS >= 2 (C20_no_stuck); once the handle is dropped and no guard is live the participant is finalized, its bag is empty and every deferred function is either executed or in a sealed bag of the global queue (C20_handover, C20_exit_finalizes); after the collector is dropped everything ran (C20_all_run); for every order of thread-local destruction relative to the HANDLE thread-local (before, after, never initialised) and every balanced sequence of API calls from the destructor nothing is left in a retired participant (C20_tls_no_loss). Tied to the code by the `@guard` and `@tls` streams (real threads, three handle orders, seven kinds of API use in the destructor, MAX_OBJECTS 64/2/3), in release and debug-assertion builds. Finding D11 (Guard::reactivate on a fallback guard aborted debug builds) was found here and repaired (fix a2e37e2). What no Gallina model exhibits - std's destructor order, try_with failing during tear-down, a panic in a TLS destructor aborting the process, deadlock - is observed at run time only.",
    "Model hand-written; tie sampled. The OS/std half of the property is tested, not proved. The path where finalize drops the last collector reference is not modelled.",
    "Coq proof (termination + conservation at thread exit) over hand-written sequential model + differential correspondence with real thread-local destructors")
add("C17", "Theorems about the hand-written model Queue.v of the Michael-Scott queue at one-shared-access granularity, for all programs and schedules: structural invariant (write-once next, finite duplicate-free chain, head/tail on it), linearisation points (successful CAS on tail_node.next appends exactly that value; successful CAS on head removes the first element and is what the operation later returns), FIFO (pushed = popped ++ queue, each node removed at most once), try_pop_if removes the very element its predicate was evaluated on, and a None answer implies the queue was empty or its then-first element failed the predicate at an instant inside the call. Tied to the real queue (sites 30..44) by exact step-by-step replay.",
    "Model hand-written; tie sampled. SC only. Nodes not reused inside a case (justified by C13). No spurious CAS failure.",
    "Coq proof (invariant + history variables) over hand-written model + schedule-driven correspondence")
add("C18", "Theorems about the hand-written model RegList.v of the intrusive participant list, for all programs and schedules: inductive invariant (insertion only at head, marks monotone, next only redirected past marked successors, finite acyclic chain containing every unmarked inserted entry), C18_complete_scan (a traversal that returns without Stalled has reported every entry inserted before it began and not marked before it ended), C18_no_dup, C18_unlink_once / finalize at most once, only marked entries unlinked. Tied to the real list (sites 50..56) by exact step-by-step replay.",
    "Model hand-written; tie sampled. SC only. Entries not reused; reclamation of unlinked entries and List::drop not modelled; the use of the list by try_advance is the M2 model's registry scan.",
    "Coq proof (inductive invariant) over hand-written model + schedule-driven correspondence")
add("C19", "Theorems about the hand-written model Traits.v (Eq/Ord/PartialOrd/Hash/ptr_eq of Rc and Snapshot as functions of as_ref over an arbitrary payload with a lawful order and hash): equivalence and total-order laws, eq <-> cmp = Eq, partial_cmp = Some cmp, eq -> equal hashes, null equals only null and is smallest, tag/timestamp never influence eq/cmp/hash, ptr_eq = same object and tag, ptr_eq -> eq with the converse refuted by example. Tied to the code by a differential sweep over every ordered pair of a pointer family for both types plus direct evaluation of the laws on the implementation.",
    "Model hand-written; the content of the property is mostly in the tie (that the impls delegate to as_ref). The payload's own Ord/Hash laws are premises.",
    "Coq proof over hand-written model + exhaustive-family differential check")

add("C06", "Partial. Proved (Coq, chains of every length, by induction over the chain, for every state in which the chain is embedded): a cascade started on the head of a chain whose node stamps and link timestamps are at least RECLAIM_AGE epochs old destructs, drops and frees all nodes (up to DEPTH_CAP of them) in ONE pass - no epoch advance, nothing deferred, at most 12 model steps per node - leaving every other object and thread untouched (C06_cascade_full); a node with a second owner survives with its count decremented, its links intact and everything behind it untouched (C06_cascade_survivor); node DEPTH_CAP+1 is left with count 0, not destructed, and exactly one new pending try_destruct (C06_cascade_cap); a recent link timestamp defers instead (example). The reclaim test and the merged stamp are the generated images of the expressions in src/utils.rs. Not a theorem: the number of passes of a chain longer than DEPTH_CAP (each deferral costs a grace period, and the 4-bit stamp window periodically makes old stamps look recent); that is decided by comparing the real pass sizes of real chains (lengths 1..5000, all 16 epoch residues, with and without an externally held node) with the model's prediction (RcChain.v through Rc.micro) and by a monitor bounding the epoch advances between the drop and the last destructor by 16*(n/1024)+24 (chains up to 10^6 nodes in the thorough tier).",
    "Model hand-written; tie sampled. Chains only in the theorem; trees/diamonds in the rc stream. The grace-period bound is measured, not proved.",
    "Coq proof (induction over the chain, footprint lemmas) over hand-written model + differential correspondence of pass sizes + latency monitor")
add("C07", "Partial. Proved (Coq, all programs, schedules and oracles, no bound on structure size): in the model Rc.v the continuation stack of every thread holds dispose_general_node frames whose depth arguments strictly decrease down the stack and lie in [0, DEPTH_CAP]; at most DEPTH_CAP invocations are past their depth test and at most one more has been entered; an invocation entered at DEPTH_CAP defers its object and returns; try_destruct frames only ever sit on dispose-free stacks (so deferral really unwinds). DEPTH_CAP = 1024 is regenerated from src/utils.rs on every run and pinned by a theorem. Tied to the code by the chain stream (pass sizes of real chain destructions, incl. the 1024-node segments produced by the cap, predicted exactly by running Rc.micro on the same chain: RcChain.v) and the rc stream (trees/diamonds). What a theorem cannot carry - bytes per invocation versus the stack a thread has - is decided by stack probes: chains of up to 10^6 nodes destroyed on threads with 256 KiB..8 MiB stacks in child processes, all nodes reclaimed. Known finding D10: stacks of 128 KiB or less overflow (reported as KNOWN-FINDING).",
    "Model hand-written; tie sampled. The runtime half (frame size x depth <= stack) is tested, not proved. The payload's own Drop is assumed not to recurse.",
    "Coq proof (inductive invariant on the continuation stack) + schedule-driven/differential correspondence + stack probes")

def chk(pid):
    c = C[pid]
    return {
        "property_id": pid,
        "quick_cmd": "./check %s --tier quick" % pid,
        "thorough_cmd": "./check %s --tier thorough" % pid,
        "evidence_file": "evidence/%s.json" % pid,
        "replay_cmd_template": "./check %s --replay {path}" % pid,
        "engine": "coq-proof",
        "level_claimed": {"category": "proof", "text": c['text'], "design_ref": c['ref']},
        "level_note": c['note'],
        "technique": c['technique'],
    }

ALL = ["C%02d" % i for i in range(1, 21)]
PENDING = {
    "C01": "model M3 (reference-count protocol over the EBR spec) under construction; not yet registered",
    "C02": "needs M3 with links and the cascade (Appendix A of DESIGN.md); not yet registered",
    "C03": "model M3 under construction; not yet registered",
    "C04": "model M3 under construction; not yet registered",
    "C05": "model M3 under construction; not yet registered",
    "C10": "model M3 under construction; not yet registered",
}
hooks = os.popen("git -C /repo log --format=%h --grep='^verif hooks'").read().split()
m = {
    "version": 1,
    "setup_cmd": "./setup.sh",
    "hooks": {
        "guard": "circ_verif",
        "enable": "RUSTFLAGS=\"--cfg circ_verif\" (set in harness/.cargo/config.toml and by ./check)",
        "baseline_off_cmd": "cd /repo && cargo test --workspace --no-fail-fast --offline",
        "source_commits": list(reversed(hooks)),
        "add_only": True,
    },
    "engines": [{"name": "coq-proof", "path": "coq/", "serves_properties": sorted(C),
                 "kind_free_text": "Coq 8.16 development: models (generated by tools/rs2v.py or hand-written), proofs, pinned statements in coq/Properties; extraction to ocaml/; differential and schedule-driven correspondence harness in harness/"}],
    "checks": [chk(p) for p in sorted(C)],
    "notes": "See DESIGN.md. Every check regenerates coq/Gen from /repo, rebuilds the needed .vo files with a full (non -vos) build, re-runs coqc on the pinned statement file, rebuilds the harness against /repo with --cfg circ_verif, re-extracts the models and replays fresh cases.",
    "not_applicable": [{"property_id": p, "reason": PENDING[p]} for p in ALL if p not in C],
}
json.dump(m, open(os.path.join(V, 'MANIFEST.json'), 'w'), indent=1)
print("claimed:", sorted(C))
