"""vlib.py -- shared machinery of /verif/check.

A check of property P does, in this order:
  1. regenerate coq/Gen/*.v from /repo's working tree (tools/rs2v.py)            [translator tie]
  2. `make` the Coq targets P depends on (full .vo build), re-run coqc on Properties/P.v, collect
     `Print Assumptions` output, compare against the allow-list, grep for forbidden vernacular
  3. rebuild the harness against /repo with hooks on, re-extract the model to OCaml, run the
     correspondence streams serving P and the implementation-side property monitors
  4. write evidence/P.json; on any failure go through the violation protocol (DESIGN.md section 5)
"""
import hashlib
import json
import os
import re
import shutil
import subprocess
import sys
import time

VERIF = os.path.dirname(os.path.dirname(os.path.abspath(__file__)))
REPO = os.environ.get('VERIF_REPO', '/repo')
COQ = os.path.join(VERIF, 'coq')
OCAML = os.path.join(VERIF, 'ocaml')
HARNESS = os.path.join(VERIF, 'harness')
WORK = os.path.join(VERIF, 'work')
EVID = os.environ.get('VERIF_EVIDENCE_DIR') or os.path.join(VERIF, 'evidence')
REPLAYS = os.path.join(VERIF, 'replays')

FORBIDDEN = re.compile(
    r"\b(Admitted|admit|Axiom|Axioms|Parameter|Parameters|Conjecture|Conjectures|Admit Obligations|bypass_check)\b"
    r"|Unset\s+Guard|Unset\s+Positivity|Unset\s+Universe|Guard Checking|type-in-type|impredicative-set")

ALLOWED_AXIOMS = set()  # per-property additions are passed explicitly

ENV = dict(os.environ)
ENV.update({'CARGO_NET_OFFLINE': 'true', 'RUSTFLAGS': '--cfg circ_verif', 'CARGO_TERM_COLOR': 'never'})


def sh(cmd, cwd=None, timeout=1800, env=None):
    """run a shell command; returns (rc, combined output)"""
    if 'circ-verif-harness' in cmd and 'cargo' not in cmd:
        # a changed crate may allocate without bound (seen: a lost field mask made a stream eat 46 GB): cap the address
        # space of harness runs; the allocation failure then aborts the run, which the streams report as a crash
        cmd = "ulimit -v 25165824 2>/dev/null; " + cmd
    try:
        p = subprocess.run(cmd, shell=True, cwd=cwd, env=env or ENV, stdout=subprocess.PIPE,
                           stderr=subprocess.STDOUT, timeout=timeout)
        return p.returncode, p.stdout.decode('utf-8', 'replace')
    except subprocess.TimeoutExpired as ex:
        out = (ex.stdout or b'').decode('utf-8', 'replace')
        return 124, out + "\n[timeout after %ds]" % timeout


class Failure:
    """one reason why the property is not shown to hold on this run"""

    def __init__(self, kind, what, detail='', concrete=None):
        self.kind = kind          # 'translator' | 'proof' | 'assumptions' | 'forbidden' | 'correspondence' | 'monitor' | 'build'
        self.what = what          # short name (theorem, stream, ...)
        self.detail = detail      # log excerpt
        self.concrete = concrete  # a concrete failing input on the implementation (dict) or None

    def to_json(self):
        return {'kind': self.kind, 'what': self.what, 'detail': self.detail[-4000:], 'failing_input': self.concrete}


# ---------------------------------------------------------------------------------------------
# step 1: translator

def gen_deps(targets):
    """the generated files (Gen/X.v) in the transitive dependency closure of the given .vo targets, from the
    dependency file coq_makefile maintains; None if it cannot be determined (then every generated file counts)"""
    dep = os.path.join(COQ, '.Makefile.d')
    graph = {}
    try:
        with open(dep) as fh:
            for line in fh:
                if ':' not in line:
                    continue
                lhs, rhs = line.split(':', 1)
                ds = [d for d in rhs.split() if d.endswith('.vo')]
                for t in lhs.split():
                    if t.endswith('.vo'):
                        graph[t] = ds
    except OSError:
        return None
    seen, todo = set(), [t for t in targets if t != 'Extract.vo']
    while todo:
        t = todo.pop()
        if t in seen:
            continue
        seen.add(t)
        if t not in graph and not t.startswith('Gen/'):
            return None
        todo.extend(graph.get(t, []))
    return set(os.path.basename(t)[:-1] for t in seen if t.startswith('Gen/'))


def regenerate(targets=None):
    """run the translator.  A generated file that cannot be regenerated (exit code 3) keeps its last good content; that
    is a failure of the property at hand only if its theorems depend on that file"""
    rc, out = sh("python3 %s --repo %s --out %s" % (os.path.join(VERIF, 'tools', 'rs2v.py'), REPO,
                                                    os.path.join(COQ, 'Gen')), timeout=120)
    if rc == 3 and targets is not None:
        failed = re.findall(r"TRANSLATION FAILED (\w+\.v):", out)
        needed = gen_deps(targets)
        hit = [f for f in failed if needed is None or f in needed]
        if failed and not hit:
            return None
        return Failure('translator', 'tools/rs2v.py could not regenerate %s' % ", ".join(hit or failed), out)
    if rc != 0:
        return Failure('translator', 'tools/rs2v.py', out)
    return None


# ---------------------------------------------------------------------------------------------
# step 2: Coq

def ensure_makefile():
    mk = os.path.join(COQ, 'Makefile')
    cp = os.path.join(COQ, '_CoqProject')
    if not os.path.exists(mk) or os.path.getmtime(mk) < os.path.getmtime(cp):
        sh("coq_makefile -f _CoqProject -o Makefile", cwd=COQ, timeout=120)


def coq_make(targets, timeout=1500):
    ensure_makefile()
    # a target that is not listed in _CoqProject has no rule: a stale .vo would be accepted silently
    with open(os.path.join(COQ, '_CoqProject')) as fh:
        listed = set(l.strip() for l in fh)
    missing = [t for t in targets if t[:-1] not in listed]
    if missing:
        return 2, "targets not listed in coq/_CoqProject: %s" % " ".join(missing)
    rc, out = sh("timeout %d make -j16 %s" % (timeout, " ".join(targets)), cwd=COQ, timeout=timeout + 30)
    return rc, out


def parse_coq_error(out):
    m = re.search(r'File "([^"]+)", line (\d+), characters [^\n]*\n(Error:.*?)(?:\n\n|\nmake|\Z)', out, re.S)
    if m:
        return {'file': m.group(1), 'line': int(m.group(2)), 'error': m.group(3).strip()[:1500]}
    return {'file': None, 'line': None, 'error': out[-1500:]}


def forbidden_scan():
    hits = []
    for root, _, files in os.walk(COQ):
        for f in files:
            if not f.endswith('.v'):
                continue
            path = os.path.join(root, f)
            with open(path) as fh:
                src = fh.read()
            src_nc = strip_coq_comments(src)
            for m in FORBIDDEN.finditer(src_nc):
                line = src_nc.count('\n', 0, m.start()) + 1
                hits.append("%s:%d: %s" % (os.path.relpath(path, VERIF), line, m.group(0)))
            # Variable / Hypothesis / Context outside a Section declare an axiom
            depth = 0
            for ln, text in enumerate(src_nc.splitlines(), 1):
                t = text.strip()
                if re.match(r"(Section|Module\s+Type)\s+\w+", t):
                    depth += 1
                elif re.match(r"End\s+\w+\s*\.", t) and depth > 0:
                    depth -= 1
                elif depth == 0 and re.match(r"(Variable|Variables|Hypothesis|Hypotheses|Context)\b", t):
                    hits.append("%s:%d: %s outside a section" % (os.path.relpath(path, VERIF), ln, t.split()[0]))
    return hits


def strip_coq_comments(src):
    out = []
    depth = 0
    i = 0
    n = len(src)
    while i < n:
        if src.startswith('(*', i):
            depth += 1
            i += 2
        elif src.startswith('*)', i) and depth > 0:
            depth -= 1
            i += 2
        else:
            if depth == 0:
                out.append(src[i])
            elif src[i] == '\n':
                out.append('\n')
            i += 1
    return ''.join(out)


def check_properties_file(pid, allowed_axioms=()):
    """re-run coqc on Properties/<pid>.v; returns (theorem names, axioms used {thm: [..]}, failure or None)"""
    vfile = os.path.join('Properties', pid + '.v')
    rc, out = sh("timeout 600 coqc -R . Circ %s" % vfile, cwd=COQ, timeout=640)
    with open(os.path.join(COQ, vfile)) as fh:
        src = strip_coq_comments(fh.read())
    theorems = re.findall(r"\bTheorem\s+(\w+)", src)
    prints = re.findall(r"\bPrint Assumptions\s+(\w+)", src)
    if rc != 0:
        return theorems, {}, Failure('proof', vfile, json.dumps(parse_coq_error(out)))
    missing = [t for t in theorems if t not in prints]
    if missing:
        return theorems, {}, Failure('assumptions', vfile, "no Print Assumptions for: %s" % ", ".join(missing))
    # split the output into one block per Print Assumptions, in order
    blocks = re.split(r"(?=Closed under the global context|Axioms:)", out)
    blocks = [b for b in blocks if b.startswith('Closed under') or b.startswith('Axioms:')]
    if len(blocks) != len(prints):
        return theorems, {}, Failure('assumptions', vfile, "expected %d assumption reports, got %d\n%s" % (len(prints), len(blocks), out[-2000:]))
    used = {}
    bad = []
    for name, b in zip(prints, blocks):
        if b.startswith('Closed under'):
            used[name] = []
        else:
            ax = re.findall(r"^([A-Za-z_][\w.']*)\s*:", b, re.M)
            used[name] = ax
            for a in ax:
                if a not in allowed_axioms:
                    bad.append("%s depends on %s" % (name, a))
    if bad:
        return theorems, used, Failure('assumptions', vfile, "; ".join(bad))
    return theorems, used, None


def count_lemmas(files):
    n = 0
    for f in files:
        path = os.path.join(COQ, f)
        if os.path.exists(path):
            with open(path) as fh:
                src = strip_coq_comments(fh.read())
            n += len(re.findall(r"^\s*(?:Lemma|Theorem|Example|Corollary|Fact|Remark)\s+\w+", src, re.M))
    return n


# ---------------------------------------------------------------------------------------------
# step 3: harness + driver

_built = {}


def build_harness():
    if 'harness' in _built:
        return _built['harness']
    lock = os.path.join(HARNESS, 'Cargo.lock')
    if not os.path.exists(lock):
        shutil.copy(os.path.join(REPO, 'Cargo.lock'), lock)
    rc, out = sh("cargo build --release --offline 2>&1", cwd=HARNESS, timeout=1200)
    res = None if rc == 0 else Failure('build', 'harness (cargo build against %s with --cfg circ_verif)' % REPO, out)
    _built['harness'] = res
    return res


def harness_bin(profile='release'):
    return os.path.join(HARNESS, 'target', profile, 'circ-verif-harness')


def build_harness_profile(profile):
    """second build of the harness with the crate's debug assertions on (profile dbg in harness/Cargo.toml)"""
    key = 'harness-' + profile
    if key in _built:
        return _built[key]
    f = build_harness()
    if f:
        return f
    rc, out = sh("cargo build --profile %s --offline 2>&1" % profile, cwd=HARNESS, timeout=1200)
    res = None if rc == 0 else Failure('build', 'harness (profile %s)' % profile, out)
    _built[key] = res
    return res


def build_driver():
    """Extract.vo (made by coq_make) leaves model.ml/.mli in coq/; compile the driver when stale."""
    if 'driver' in _built:
        return _built['driver']
    os.makedirs(WORK, exist_ok=True)
    src_ml = os.path.join(COQ, 'model.ml')
    vo = os.path.join(COQ, 'Extract.vo')
    if not os.path.exists(src_ml) or (os.path.exists(vo) and os.path.getmtime(src_ml) < os.path.getmtime(vo) - 1):
        # Extract.vo is up to date but its side effect (model.ml) is not there: re-run the extraction
        rc, out = sh("timeout 600 coqc -R . Circ Extract.v", cwd=COQ, timeout=640)
        if rc != 0 or not os.path.exists(src_ml):
            res = Failure('build', 'extraction', 'coq/model.ml missing (Extract.v did not build)\n' + out)
            _built['driver'] = res
            return res
    drv = os.path.join(OCAML, 'driver')
    stamp = os.path.join(OCAML, '.stamp')
    h = hashlib.sha256()
    for f in (src_ml, os.path.join(COQ, 'model.mli'), os.path.join(OCAML, 'driver.ml')):
        with open(f, 'rb') as fh:
            h.update(fh.read())
    digest = h.hexdigest()
    old = open(stamp).read() if os.path.exists(stamp) else ''
    res = None
    if old != digest or not os.path.exists(drv):
        shutil.copy(src_ml, os.path.join(OCAML, 'model.ml'))
        shutil.copy(os.path.join(COQ, 'model.mli'), os.path.join(OCAML, 'model.mli'))
        rc, out = sh("ocamlfind ocamlopt -package zarith,str -linkpkg -O2 -w -a model.mli model.ml driver.ml -o driver",
                     cwd=OCAML, timeout=600)
        if rc != 0:
            res = Failure('build', 'ocaml driver', out)
        else:
            with open(stamp, 'w') as fh:
                fh.write(digest)
    _built['driver'] = res
    return res


# ---------------------------------------------------------------------------------------------
# evidence / violation protocol

def git_head(path):
    rc, out = sh("git -C %s rev-parse --short HEAD" % path)
    return out.strip() if rc == 0 else '?'


def write_evidence(pid, tier, seed, coverage, assumptions, wall, violations):
    os.makedirs(EVID, exist_ok=True)
    ev = {
        'property_id': pid,
        'tier': tier,
        'seed': seed,
        'level': 'proof',
        'coverage': coverage,
        'assumptions': assumptions,
        'wall_s': round(wall, 2),
        'violations': violations,
    }
    with open(os.path.join(EVID, pid + '.json'), 'w') as fh:
        json.dump(ev, fh, indent=1, sort_keys=True)
        fh.write("\n")


def load_known():
    path = os.path.join(VERIF, 'known_findings.json')
    if not os.path.exists(path):
        return []
    with open(path) as fh:
        return json.load(fh).get('findings', [])


def report(pid, failures, tier, seed):
    """print VIOLATION / KNOWN-FINDING lines; returns the exit status"""
    known = [k for k in load_known() if k.get('property') == pid and k.get('status') == 'open']
    unknown = []
    for f in failures:
        sig = (f.concrete or {}).get('signature')
        hit = None
        if sig is not None:
            for k in known:
                if k.get('signature') == sig:
                    hit = k
        if hit is not None:
            print("KNOWN-FINDING: property=%s %s" % (pid, hit.get('what', '')))
        else:
            unknown.append(f)
    if not unknown:
        return 0
    os.makedirs(REPLAYS, exist_ok=True)
    concrete = [f for f in unknown if f.concrete is not None]
    body = {
        'property': pid, 'tier': tier, 'seed': seed, 'repo_head': git_head(REPO),
        'failures': [f.to_json() for f in unknown],
        'how_to_replay': "./check %s --tier %s --seed %d   (deterministic for the same /repo tree)" % (pid, tier, seed),
    }
    digest = hashlib.sha256(json.dumps(body, sort_keys=True).encode()).hexdigest()[:10]
    path = os.path.join(REPLAYS, "%s-%s.json" % (pid, digest))
    with open(path, 'w') as fh:
        json.dump(body, fh, indent=1)
        fh.write("\n")
    for f in unknown[:8]:
        print("FAIL[%s] %s: %s" % (f.kind, f.what, (f.detail or '').strip().splitlines()[0][:300] if f.detail else ''))
    if concrete:
        print("VIOLATION property=%s replay=%s" % (pid, path))
    else:
        print("VIOLATION property=%s replay=%s no-failing-input-found" % (pid, path))
    return 1
