#!/usr/bin/env python3
"""Prints the markdown table of seeded changes (seeded/<id>/<variant>/meta.json) for DESIGN.md section 8.6."""
import json, os, sys
V = os.path.dirname(os.path.dirname(os.path.abspath(__file__)))
root = os.path.join(V, 'seeded')
rows = []
for pid in sorted(os.listdir(root)):
    for var in sorted(os.listdir(os.path.join(root, pid))):
        mp = os.path.join(root, pid, var, 'meta.json')
        if not os.path.exists(mp):
            continue
        m = json.load(open(mp))
        vr = m.get('verif_result', {})
        cells = []
        for chk, r in sorted(vr.get('checks', {}).items()):
            kinds = sorted(set(f.split(']')[0].replace('FAIL[', '') for f in r.get('first_failures', [])))
            concrete = 'no-failing-input-found' not in r.get('violation_line', '')
            cells.append("%s: %s (%s%s)" % (chk, 'detected' if r.get('detected') else 'MISSED', '+'.join(kinds) or '-', '' if (concrete or not r.get('detected')) else ', no concrete input'))
        summ = (m.get('summary') or '').replace('\n', ' ').replace('|', '/')
        rows.append("| %s/%s | %s | %s |" % (pid, var, summ[:230], '; '.join(cells)))
print("| seed | change (as described by the sub-agent that produced it) | result of `./check` with the change applied |")
print("|------|----------|---------|")
print("\n".join(rows))
