#!/usr/bin/env python3
"""seedpar.py [--jobs N] [--tier quick] [--nokeep] SPEC ...     SPEC = <dir with patch.diff>:<Cxx[,Cyy..]>[:<keep as, e.g. C02/6a>]
Runs seeded changes against the checks in parallel WITHOUT touching /repo or /verif: every worker gets its own scratch
worktree of /repo's HEAD (/tmp/sp_repo_<k>) and its own copy of /verif as it is now, build output included
(/tmp/sp_verif_<k>, harness pointed at the scratch worktree, VERIF_REPO set), applies one patch at a time, runs
./check there with the evidence redirected, and restores the worktree.  Results: one line per (seed, property),
<keep>/meta.json gets a `verif_result`, and the seed's files are copied to /verif/seeded/<keep>/.
The scratch copies are removed at the end (also the worktrees).  The registered checks never use this tool."""
import json, os, shutil, subprocess, sys, threading, queue, tempfile
V = os.path.dirname(os.path.dirname(os.path.abspath(__file__)))
args = sys.argv[1:]
jobs, tier, keep_on, specs = 4, 'quick', True, []
i = 0
while i < len(args):
    if args[i] == '--jobs': jobs = int(args[i + 1]); i += 2
    elif args[i] == '--tier': tier = args[i + 1]; i += 2
    elif args[i] == '--nokeep': keep_on = False; i += 1
    else: specs.append(args[i]); i += 1


def sh(cmd, **kw):
    return subprocess.run(cmd, shell=True, stdout=subprocess.PIPE, stderr=subprocess.STDOUT, **kw)


q = queue.Queue()
for sp in specs:
    parts = sp.split(':')
    d = os.path.abspath(parts[0])
    props = parts[1].split(',')
    keep = parts[2] if len(parts) > 2 else None
    q.put((d, props, keep))
results = {}
lock = threading.Lock()


def worker(k):
    repo, ver = '/tmp/sp_%d_repo_%d' % (os.getpid(), k), '/tmp/sp_%d_verif_%d' % (os.getpid(), k)     # unique per invocation
    sh("git -C /repo worktree remove --force %s; rm -rf %s %s" % (repo, repo, ver))
    r = sh("git -C /repo worktree add --detach %s HEAD" % repo)
    if r.returncode != 0:
        print("worker %d: cannot create worktree: %s" % (k, r.stdout.decode())); return
    sh("mkdir -p %s && cd %s && tar --exclude=./.git --exclude=./replays --exclude=./seeded --exclude=./benign -cf - . | tar -xf - -C %s" % (ver, V, ver))
    sh("sed -i 's#path = \"/repo\"#path = \"%s\"#' %s/harness/Cargo.toml" % (repo, ver))
    while True:
        try:
            d, props, keep = q.get_nowait()
        except queue.Empty:
            break
        patch = os.path.join(d, 'patch.diff')
        r = sh("git -C %s apply %s" % (repo, patch))
        res = {}
        if r.returncode != 0:
            res['error'] = 'patch does not apply: ' + r.stdout.decode()[-300:]
        else:
            for p in props:
                ev = tempfile.mkdtemp(prefix='sp_ev_')
                env = dict(os.environ, VERIF_REPO=repo, VERIF_EVIDENCE_DIR=ev, CARGO_NET_OFFLINE='true')
                rr = sh("./check %s --tier %s" % (p, tier), cwd=ver, env=env)
                out = rr.stdout.decode()
                viol = [l for l in out.splitlines() if l.startswith('VIOLATION')]
                fails = [l for l in out.splitlines() if l.startswith('FAIL[')]
                res[p] = {'rc': rr.returncode, 'violation': viol, 'fails': fails[:8]}
                shutil.rmtree(ev, ignore_errors=True)
                with lock:
                    print("%s %s: %s rc=%d" % (keep or d, p, 'DETECTED' if (rr.returncode == 1 and viol) else 'MISSED', rr.returncode))
                    for l in fails[:4]:
                        print("     ", l[:230])
                    sys.stdout.flush()
        sh("git -C %s checkout -- . && git -C %s clean -fdq" % (repo, repo))
        with lock:
            results[(d, keep)] = (props, res)
    sh("git -C /repo worktree remove --force %s; rm -rf %s %s" % (repo, repo, ver))


ths = [threading.Thread(target=worker, args=(k,)) for k in range(min(jobs, max(1, q.qsize())))]
for t in ths: t.start()
for t in ths: t.join()
sh("git -C /repo worktree prune")
for (d, keep), (props, res) in results.items():
    if not keep or not keep_on or 'error' in res:
        if 'error' in res:
            print(keep or d, res['error'])
        continue
    dst = os.path.join(V, 'seeded', keep)
    os.makedirs(dst, exist_ok=True)
    if os.path.realpath(d) != os.path.realpath(dst):
        for f in os.listdir(d):
            if os.path.isfile(os.path.join(d, f)):
                shutil.copy(os.path.join(d, f), os.path.join(dst, f))
    mp = os.path.join(dst, 'meta.json')
    try:
        meta = json.load(open(mp))
    except (OSError, ValueError):
        meta = {}
    old = meta.get('verif_result', {}).get('checks', {}) if meta.get('verif_result', {}).get('tier') == tier else {}
    old.update({p: {'detected': bool(res[p]['rc'] == 1 and res[p]['violation']),
                    'violation_line': (res[p]['violation'] or [''])[0],
                    'first_failures': res[p]['fails'][:4]} for p in props})
    meta['verif_result'] = {'tier': tier, 'suite_with_patch': meta.get('verif_result', {}).get('suite_with_patch', 'green (confirmed in the scratch worktree)'),
                            'checks': old}
    json.dump(meta, open(mp, 'w'), indent=1)
missed = [(keep or d, p) for (d, keep), (props, res) in results.items() if 'error' not in res for p in props
          if not (res[p]['rc'] == 1 and res[p]['violation'])]
print("SUMMARY: %d seeds, missed: %s" % (len(results), missed or 'none'))
