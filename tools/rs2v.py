#!/usr/bin/env python3
"""rs2v.py -- translate the pure word-level core of kaist-cp/circ from Rust to Coq (Gallina over Z).

Reads, from the CURRENT working tree of the repository (default /repo):
  src/utils.rs              consts, impl State, impl Modular, alloc's initial word,
                            the decision expressions of dispose_general_node
  src/ebr_impl/pointers.rs  HIGH_TAG_WIDTH, impl Tagged, low_bits, with_tag
  src/ebr_impl/epoch.rs     impl Epoch
  src/ebr_impl/internal.rs  is_expired, tuning constants
  src/ebr_impl/deferred.rs  DATA_WORDS
and writes coq/Gen/{Params,StateW,ModularW,TaggedW,EpochW,DisposeW}.v.  Files are rewritten only when
their content changes.  Any item or pattern that is expected but missing makes the translator fail
(exit status 2, message on stderr): a broken tie, which ./check reports.

Machine semantics written out in the output:
  unsigned + - * <<      wrap to the operand width   (wrap n x = x mod 2^n)
  !x (integers)          2^n - 1 - x
  / %  unsigned          Z.div / Z.modulo ;  signed (isize): Z.quot / Z.rem (truncating)
  >>                     Z.shiftr (floor; arithmetic for signed)
  as u32                 mod 2^32 ; as isize from unsigned: two's complement reinterpretation
  isize + - *            plain Z (NO wrap: the theorems assume |values| < 2^62, stated there)
"""
import os
import re
import sys

# ------------------------------------------------------------------------------------------------
# tokenizer


class TranslateError(Exception):
    pass


TOK_RE = re.compile(r"""
    (?P<ws>\s+|//[^\n]*|/\*.*?\*/)
  | (?P<num>0x[0-9a-fA-F_]+|[0-9][0-9_]*)(?P<suf>u64|u32|usize|isize|i64|u8)?
  | (?P<id>[A-Za-z_][A-Za-z0-9_]*)
  | (?P<life>'[a-z_]+)
  | (?P<op><<=|>>=|<<|>>|<=|>=|==|!=|&&|\|\||::|->|=>|\.\.|[-+*/%&|^!<>=.,;:(){}\[\]#?])
""", re.X | re.S)


def tokenize(src):
    toks = []
    i = 0
    while i < len(src):
        m = TOK_RE.match(src, i)
        if not m:
            raise TranslateError("cannot tokenize at: %r" % src[i:i + 30])
        i = m.end()
        if m.group('ws'):
            continue
        if m.group('num'):
            toks.append(('num', int(m.group('num').replace('_', ''), 0), m.group('suf')))
        elif m.group('id'):
            toks.append(('id', m.group('id')))
        elif m.group('life'):
            toks.append(('life', m.group('life')))
        else:
            toks.append(('op', m.group('op')))
    return toks


# ------------------------------------------------------------------------------------------------
# parser (expressions and simple function bodies)

class P:
    def __init__(self, toks):
        self.t = toks
        self.i = 0

    def peek(self, k=0):
        return self.t[self.i + k] if self.i + k < len(self.t) else ('eof',)

    def next(self):
        tok = self.peek()
        self.i += 1
        return tok

    def at_op(self, op, k=0):
        tok = self.peek(k)
        return tok[0] == 'op' and tok[1] == op

    def at_id(self, name=None, k=0):
        tok = self.peek(k)
        return tok[0] == 'id' and (name is None or tok[1] == name)

    def expect_op(self, op):
        tok = self.next()
        if tok != ('op', op):
            raise TranslateError("expected %r, got %r (pos %d)" % (op, tok, self.i))

    def expect_id(self):
        tok = self.next()
        if tok[0] != 'id':
            raise TranslateError("expected identifier, got %r" % (tok,))
        return tok[1]

    # ---- types (skipped, returned as a string)
    def parse_type(self):
        out = []
        depth = 0
        while True:
            tok = self.peek()
            if tok[0] == 'op' and tok[1] in ('<', '(', '['):
                depth += 1
            elif tok[0] == 'op' and tok[1] in ('>', ')', ']'):
                if depth == 0:
                    break
                depth -= 1
            elif tok[0] == 'op' and tok[1] == '>>':
                if depth < 2:
                    break
                depth -= 2
            elif depth == 0 and tok[0] == 'op' and tok[1] in (',', ';', '=', '{', ')'):
                break
            elif tok[0] == 'eof':
                break
            out.append(str(tok[1]))
            self.next()
        return ''.join(out)

    # ---- blocks
    def parse_block(self):
        """{ stmt* expr? }  ->  ('block', [(name, expr)...], final_expr)"""
        self.expect_op('{')
        lets = []
        final = None
        while not self.at_op('}'):
            if self.at_id('let'):
                self.next()
                if self.at_id('mut'):
                    self.next()
                name = self.expect_id()
                if self.at_op(':'):
                    self.next()
                    self.parse_type()
                self.expect_op('=')
                e = self.parse_expr()
                self.expect_op(';')
                lets.append((name, e))
            elif self.at_id() and self.peek()[1] in ('debug_assert', 'debug_assert_eq', 'assert') \
                    and self.at_op('!', 1):
                self.next()
                self.next()
                self.skip_group()
                if self.at_op(';'):
                    self.next()
            elif self.at_id('for'):
                # `for [&]x in xs[.iter()] { acc = e; }` over an accumulator bound by an earlier `let mut acc`:
                # the same left fold as `xs.iter().fold(acc, |acc, x| e)`
                self.next()
                if self.at_op('&'):
                    self.next()
                var = self.expect_id()
                if not self.at_id('in'):
                    raise TranslateError("for loop: `in` expected")
                self.next()
                xs = self.expect_id()
                if self.at_op('.'):
                    self.next()
                    if self.expect_id() != 'iter':
                        raise TranslateError("for loop: only `xs` or `xs.iter()` can be iterated")
                    self.expect_op('(')
                    self.expect_op(')')
                self.expect_op('{')
                acc = self.expect_id()
                self.expect_op('=')
                body = self.parse_expr()
                self.expect_op(';')
                self.expect_op('}')
                if acc not in [n for n, _ in lets]:
                    raise TranslateError("for loop: accumulator %s is not a local of the block" % acc)
                lets.append((acc, ('mcall', ('mcall', ('path', [xs]), 'iter', []), 'fold',
                                   [('path', [acc]), ('closure', [acc, var], body)])))
            elif self.at_id('unsafe') and self.at_op('{', 1):
                self.next()
                final = self.parse_block()
            else:
                final = self.parse_expr()
                if self.at_op(';'):
                    raise TranslateError("statement expressions are not supported")
        self.expect_op('}')
        if final is None:
            raise TranslateError("block without a value")
        return ('block', lets, final)

    def skip_group(self):
        open_ = self.next()
        pairs = {'(': ')', '[': ']', '{': '}'}
        close = pairs[open_[1]]
        depth = 1
        while depth:
            tok = self.next()
            if tok[0] == 'eof':
                raise TranslateError("unbalanced group")
            if tok == ('op', open_[1]):
                depth += 1
            elif tok == ('op', close):
                depth -= 1

    # ---- expressions
    BIN = [
        ['||'], ['&&'], ['==', '!=', '<', '>', '<=', '>='], ['|'], ['^'], ['&'], ['<<', '>>'],
        ['+', '-'], ['*', '/', '%'],
    ]

    def parse_expr(self, level=0, nostruct=False):
        if level == len(self.BIN):
            return self.parse_cast(nostruct)
        lhs = self.parse_expr(level + 1, nostruct)
        while self.peek()[0] == 'op' and self.peek()[1] in self.BIN[level]:
            # closure bars / generic brackets never reach here in this subset
            op = self.next()[1]
            rhs = self.parse_expr(level + 1, nostruct)
            lhs = ('bin', op, lhs, rhs)
        return lhs

    def parse_cast(self, nostruct):
        e = self.parse_unary(nostruct)
        while self.at_id('as'):
            self.next()
            ty = self.parse_cast_type()
            e = ('as', e, ty)
        return e

    def parse_cast_type(self):
        if self.at_op('*'):
            self.next()
            self.next()  # mut / const
            self.parse_path_type()
            return 'ptr'
        return self.parse_path_type()

    def parse_path_type(self):
        name = self.expect_id()
        if self.at_op('<'):
            depth = 0
            while True:
                tok = self.next()
                if tok == ('op', '<'):
                    depth += 1
                elif tok == ('op', '>'):
                    depth -= 1
                    if depth == 0:
                        break
        return name

    def parse_unary(self, nostruct):
        if self.at_op('!'):
            self.next()
            return ('not', self.parse_unary(nostruct))
        if self.at_op('-'):
            self.next()
            return ('neg', self.parse_unary(nostruct))
        if self.at_op('&') or self.at_op('*'):
            self.next()
            if self.at_id('mut'):
                self.next()
            return self.parse_unary(nostruct)
        return self.parse_postfix(nostruct)

    def parse_args(self):
        self.expect_op('(')
        args = []
        while not self.at_op(')'):
            args.append(self.parse_expr())
            if self.at_op(','):
                self.next()
        self.expect_op(')')
        return args

    def skip_turbofish(self):
        # ::<T>
        if self.at_op('::') and self.at_op('<', 1):
            self.next()
            depth = 0
            while True:
                tok = self.next()
                if tok == ('op', '<'):
                    depth += 1
                elif tok == ('op', '>'):
                    depth -= 1
                    if depth == 0:
                        break
            return True
        return False

    def parse_postfix(self, nostruct):
        e = self.parse_primary(nostruct)
        while True:
            if self.at_op('.'):
                self.next()
                name = self.expect_id()
                self.skip_turbofish()
                if self.at_op('('):
                    args = self.parse_args()
                    e = ('mcall', e, name, args)
                else:
                    e = ('field', e, name)
            elif self.at_op('('):
                args = self.parse_args()
                e = ('call', e, args)
            else:
                return e

    def parse_primary(self, nostruct):
        tok = self.peek()
        if tok[0] == 'num':
            self.next()
            return ('num', tok[1], tok[2])
        if tok == ('op', '('):
            self.next()
            e = self.parse_expr()
            self.expect_op(')')
            return ('paren', e)
        if tok == ('op', '['):
            self.next()
            items = []
            while not self.at_op(']'):
                items.append(self.parse_expr())
                if self.at_op(','):
                    self.next()
            self.expect_op(']')
            return ('array', items)
        if tok == ('op', '{'):
            return self.parse_block()
        if tok == ('op', '|'):
            self.next()
            params = []
            while not self.at_op('|'):
                params.append(self.expect_id())
                if self.at_op(','):
                    self.next()
            self.expect_op('|')
            body = self.parse_expr()
            return ('closure', params, body)
        if tok[0] == 'id':
            if tok[1] == 'if':
                self.next()
                c = self.parse_expr(nostruct=True)
                a = self.parse_block()
                if not self.at_id('else'):
                    raise TranslateError("if without else")
                self.next()
                if self.at_id('if'):
                    b = self.parse_primary(nostruct)
                else:
                    b = self.parse_block()
                return ('if', c, a, b)
            if tok[1] == 'unsafe' and self.at_op('{', 1):
                self.next()
                return self.parse_block()
            if tok[1] in ('true', 'false'):
                self.next()
                return ('bool', tok[1] == 'true')
            # path
            path = [self.expect_id()]
            while True:
                if self.skip_turbofish():
                    continue
                if self.at_op('::') and self.at_id(None, 1):
                    self.next()
                    path.append(self.expect_id())
                else:
                    break
            # macro call like cfg!(..) is not supported
            if self.at_op('{') and not nostruct and path[-1][0].isupper():
                # struct literal
                self.next()
                fields = []
                while not self.at_op('}'):
                    fname = self.expect_id()
                    if self.at_op(':'):
                        self.next()
                        fields.append((fname, self.parse_expr()))
                    else:
                        fields.append((fname, ('path', [fname])))
                    if self.at_op(','):
                        self.next()
                self.expect_op('}')
                return ('struct', path, fields)
            return ('path', path)
        raise TranslateError("unexpected token %r at %d" % (tok, self.i))


# ------------------------------------------------------------------------------------------------
# source item extraction

def strip_comments(src):
    src = re.sub(r"//[^\n]*", "", src)
    return src


def find_matching(src, i, open_='{', close='}'):
    assert src[i] == open_
    depth = 0
    for j in range(i, len(src)):
        if src[j] == open_:
            depth += 1
        elif src[j] == close:
            depth -= 1
            if depth == 0:
                return j
    raise TranslateError("unbalanced braces")


def cut_cfg_test(src):
    """Remove #[cfg(test)] mod ... { } and #[cfg(circ_verif)] pub mod ... { } blocks."""
    out = src
    for attr in (r"#\[cfg\(test\)\]\s*mod\s+\w+\s*", r"#\[cfg\(circ_verif\)\]\s*pub\s+mod\s+\w+\s*"):
        while True:
            m = re.search(attr + r"\{", out)
            if not m:
                break
            j = find_matching(out, m.end() - 1)
            out = out[:m.start()] + out[j + 1:]
    return out


def cut_impls(src):
    """Remove every `impl ... { }` block (to look at free functions only)."""
    out = src
    while True:
        m = re.search(r"(?m)^(?:unsafe\s+)?impl\b[^{;]*\{", out)
        if not m:
            return out
        j = find_matching(out, m.end() - 1)
        out = out[:m.start()] + out[j + 1:]


def get_impl(src, header_re):
    m = re.search(header_re + r"\s*\{", src)
    if not m:
        raise TranslateError("impl block not found: %s" % header_re)
    j = find_matching(src, m.end() - 1)
    return src[m.end():j]


FN_RE = re.compile(r"(?:pub(?:\([a-z]+\))?\s+)?(?:const\s+)?(?:unsafe\s+)?fn\s+(\w+)\s*(?:<[^>]*>)?\s*\(")


def get_fns(block):
    """name -> (params [(name, type)], ret type, body text)"""
    fns = {}
    pos = 0
    while True:
        m = FN_RE.search(block, pos)
        if not m:
            break
        name = m.group(1)
        pclose = find_matching(block, m.end() - 1, '(', ')')
        params_src = block[m.end():pclose]
        rest = block[pclose + 1:]
        b = rest.index('{')
        ret = rest[:b].strip()
        ret = ret[2:].strip() if ret.startswith('->') else ''
        bstart = pclose + 1 + b
        bend = find_matching(block, bstart)
        params = []
        for part in split_top(params_src):
            part = part.strip()
            if not part:
                continue
            if part in ('self', '&self', '&mut self', 'mut self'):
                params.append(('self', 'Self'))
            else:
                pn, pt = part.split(':', 1)
                params.append((pn.strip().replace('mut ', ''), pt.strip()))
        fns[name] = (params, ret, block[bstart:bend + 1])
        pos = bend + 1
    return fns


def split_top(s):
    parts, depth, cur = [], 0, ''
    for ch in s:
        if ch in '<([':
            depth += 1
        elif ch in '>)]':
            depth -= 1
        if ch == ',' and depth == 0:
            parts.append(cur)
            cur = ''
        else:
            cur += ch
    parts.append(cur)
    return parts


CONST_RE = re.compile(r"(?:pub(?:\([a-z]+\))?\s+)?(?:const|static\s+mut)\s+([A-Z_][A-Z0-9_]*)\s*:\s*(\w+)\s*=\s*([^;]+);")


def get_consts(src):
    return [(m.group(1), m.group(2), m.group(3)) for m in CONST_RE.finditer(src)]


# ------------------------------------------------------------------------------------------------
# Coq emission

WIDTH = {'u64': 64, 'usize': 64, 'u32': 32, 'u8': 8}
UNSIGNED = set(WIDTH)


def norm_type(t):
    t = t.strip().lstrip('&').strip()
    if t.startswith('mut '):
        t = t[4:]
    if t.startswith('*mut') or t.startswith('*const'):
        return 'ptr'
    if t in ('Self', 'State', 'Epoch') or t.startswith('Tagged') or t.startswith('Modular'):
        return 'Self'
    if t.startswith('[') and 'isize' in t:
        return 'list_isize'
    return t


class Emitter:
    """Translates parsed expressions of one impl (or free functions) to Coq terms over Z."""

    def __init__(self, consts, fns, self_repr, self_fields, extra_params=(), fn_prefix=''):
        self.consts = consts          # name -> type
        self.fns = fns                # name -> (params, ret)   (functions in scope)
        self.self_repr = self_repr    # the machine type the newtype wraps ('u64', 'usize', 'isize', 'ptr')
        self.self_fields = self_fields  # field names of the newtype
        self.extra = list(extra_params)  # implicit leading parameters (e.g. k, WIDTH)
        self.prefix = fn_prefix
        self.bodies = {}              # name -> (params, ret, body src): helpers that may be inlined
        self.defined = None           # names emitted as Definitions (None: all of self.fns)
        self.all_consts = {}          # name -> (type, expr src): constants that are not emitted, inlined where used
        self.lazy_lets = {}           # name -> expr src
        self.const_values = {}        # name -> int (closed constants)
        self.depth = 0
        self.emitted = set()          # modelled functions already emitted (a call to a later one is inlined)

    def inline_const(self, n, env):
        ty, src = self.all_consts[n]
        try:
            v = const_eval(P(tokenize(src)).parse_expr(), ty, self.const_values)
        except TranslateError:
            v = None
        if v is not None:
            return ("%d" % v, ty)
        if self.depth > 16:
            raise TranslateError("constant %s: cyclic definition" % n)
        self.depth += 1
        try:
            s, _ = self.emit(P(tokenize(src)).parse_expr(), {k: v for k, v in env.items() if k in self.extra}, ty)
        finally:
            self.depth -= 1
        return (s, ty)

    def ty_of_self(self):
        return self.self_repr

    def wrap(self, ty, s):
        if ty in UNSIGNED or ty == 'ptr':
            return "(wrap %d %s)" % (WIDTH.get(ty, 64), s)
        return s

    def lit_type(self, expected):
        return expected if expected in WIDTH or expected in ('isize', 'ptr') else None

    def emit(self, e, env, expected=None):
        """returns (coq string, type)"""
        k = e[0]
        if k == 'paren':
            return self.emit(e[1], env, expected)
        if k == 'num':
            ty = e[2] or self.lit_type(expected)
            return ("%d" % e[1] if e[1] >= 0 else "(%d)" % e[1], ty)
        if k == 'bool':
            return ('true' if e[1] else 'false', 'bool')
        if k == 'block':
            out = ''
            env = dict(env)
            # local `let`s are inlined (the source language fragment is pure): the generated term does not depend
            # on how the source names its intermediate values
            for name, ex in e[1]:
                s, ty = self.emit(ex, env)
                env[name] = ty
                env['$val:' + name] = s
            s, ty = self.emit(e[2], env, expected)
            return (s, ty)
        if k == 'if':
            c, _ = self.emit(e[1], env, 'bool')
            a, ta = self.emit(e[2], env, expected)
            b, tb = self.emit(e[3], env, expected or ta)
            return ("(if %s then %s else %s)" % (c, a, b), ta or tb)
        if k == 'path':
            path = e[1]
            if len(path) == 1:
                n = path[0]
                if n in env:
                    if ('$val:' + n) in env:
                        return (env['$val:' + n], env[n])
                    return (n if n != 'self' else 'self', env[n])
                if n in self.consts:
                    return (n, self.consts[n])
                if n in self.lazy_lets:
                    # a local of the enclosing function body (pattern-extracted expressions): inline its definition
                    src = self.lazy_lets[n]
                    return self.emit(P(tokenize(src)).parse_expr(), env, expected)
                if n in self.all_consts:
                    return self.inline_const(n, env)
                raise TranslateError("unknown identifier %s" % n)
            if path == ['usize', 'BITS'] or path == ['u64', 'BITS']:
                return ('64', 'u32')
            if path == ['isize', 'MIN']:
                return ('(- 2^63)', 'isize')
            if path[0] == 'Self' and path[1] in self.consts:
                return (path[1], self.consts[path[1]])
            if len(path) == 2 and path[1] in self.all_consts:
                return self.inline_const(path[1], env)
            raise TranslateError("unsupported path %s" % '::'.join(path))
        if k == 'struct':
            if len(e[2]) != 1:
                raise TranslateError("only newtype struct literals are supported")
            s, _ = self.emit(e[2][0][1], env, self.self_repr)
            return (s, 'Self')
        if k == 'field':
            s, ty = self.emit(e[1], env)
            if ty == 'Self' and e[2] in self.self_fields:
                return (s, self.self_repr)
            raise TranslateError("unsupported field access .%s on %s" % (e[2], ty))
        if k == 'as':
            ty = e[2]
            if ty == '_':
                ty = expected
                if ty is None:
                    raise TranslateError("cannot resolve `as _`")
            s, src = self.emit(e[1], env, None)
            if src == 'Self':
                src = self.self_repr
            return (self.cast(s, src, ty), ty)
        if k == 'not':
            s, ty = self.emit(e[1], env, expected)
            if ty == 'bool':
                return ("(negb %s)" % s, 'bool')
            if ty in WIDTH or ty == 'ptr':
                return ("(bnot %d %s)" % (WIDTH.get(ty, 64), s), ty)
            raise TranslateError("`!` on untyped/signed operand: %s" % s)
        if k == 'neg':
            s, ty = self.emit(e[1], env, expected)
            return ("(- %s)" % s, ty)
        if k == 'bin':
            return self.emit_bin(e, env, expected)
        if k == 'call':
            return self.emit_call(e, env, expected)
        if k == 'mcall':
            return self.emit_mcall(e, env, expected)
        if k == 'array':
            items = [self.emit(x, env, 'isize')[0] for x in e[1]]
            return ("[" + "; ".join(items) + "]", 'list_isize')
        raise TranslateError("unsupported expression kind %s" % k)

    def cast(self, s, src, ty):
        if ty == 'ptr':
            ty = 'usize'
        if src == 'ptr':
            src = 'usize'
        if ty in ('u64', 'usize'):
            if src in ('u64', 'usize', 'u32', 'bool', 'u8', None):
                return s if src != 'bool' else "(Z.b2z %s)" % s
            if src == 'isize':
                return "(wrap 64 %s)" % s
        if ty == 'u32':
            if src == 'u32':
                return s
            return "(wrap 32 %s)" % s
        if ty == 'isize':
            if src in ('u64', 'usize'):
                return "(sext 64 %s)" % s
            if src in ('u32', 'isize', None):
                return s
        raise TranslateError("unsupported cast %s -> %s" % (src, ty))

    def emit_bin(self, e, env, expected):
        _, op, l, r = e
        if op in ('||', '&&'):
            a, _ = self.emit(l, env, 'bool')
            b, _ = self.emit(r, env, 'bool')
            return ("(%s %s %s)" % (a, op, b), 'bool')
        if op in ('==', '!=', '<', '>', '<=', '>='):
            a, ta = self.emit(l, env, None)
            b, tb = self.emit(r, env, ta)
            if ta is None and tb is not None:
                a, ta = self.emit(l, env, tb)
            if ta == 'bool' or tb == 'bool':
                if op == '==':
                    return ("(Bool.eqb %s %s)" % (a, b), 'bool')
                if op == '!=':
                    return ("(negb (Bool.eqb %s %s))" % (a, b), 'bool')
            f = {'==': "(%s =? %s)", '!=': "(negb (%s =? %s))", '<': "(%s <? %s)", '>': "(%s >? %s)",
                 '<=': "(%s <=? %s)", '>=': "(%s >=? %s)"}[op]
            return (f % (a, b), 'bool')
        if op in ('<<', '>>'):
            a, ta = self.emit(l, env, expected)
            b, _ = self.emit(r, env, 'u32')
            if ta is None:
                raise TranslateError("shift of an untyped literal (no expected type): %s" % a)
            if op == '<<':
                return (self.wrap(ta, "(Z.shiftl %s %s)" % (a, b)), ta)
            return ("(Z.shiftr %s %s)" % (a, b), ta)
        a, ta = self.emit(l, env, expected)
        b, tb = self.emit(r, env, ta or expected)
        if ta is None and tb is not None:
            a, ta = self.emit(l, env, tb)
        ty = ta or tb
        if ty is None:
            raise TranslateError("cannot type arithmetic: %s %s %s" % (a, op, b))
        if ty == 'Self':
            ty = self.self_repr
        if op in ('&', '|', '^'):
            f = {'&': 'Z.land', '|': 'Z.lor', '^': 'Z.lxor'}[op]
            return ("(%s %s %s)" % (f, a, b), ty)
        if op in ('+', '-', '*'):
            return (self.wrap(ty, "(%s %s %s)" % (a, op, b)), ty)
        if op == '/':
            return ("(%s %s %s)" % ('Z.quot' if ty == 'isize' else 'Z.div', a, b), ty)
        if op == '%':
            return ("(%s %s %s)" % ('Z.rem' if ty == 'isize' else 'Z.modulo', a, b), ty)
        raise TranslateError("unsupported operator %s" % op)

    def call_fn(self, name, args_src, env, self_arg=None):
        params, ret = self.fns[name]
        if self.defined is not None and (name not in self.defined or name not in self.emitted) and name in self.bodies:
            # a private helper that is not one of the modelled functions: inline its body at the call site
            if self.depth > 16:
                raise TranslateError("helper %s: recursion" % name)
            hparams, hret, hbody = self.bodies[name]
            env2 = {}
            it = iter(args_src)
            for pn, pt in hparams:
                if pn == 'self':
                    env2['self'] = 'Self'
                    if self_arg is not None and self_arg != 'self':
                        env2['$val:self'] = self_arg
                else:
                    a = next(it)
                    sa, _ = self.emit(a, env, norm_type(pt))
                    env2[pn] = norm_type(pt)
                    env2['$val:' + pn] = sa
            hr = norm_type(hret) if hret else None
            self.depth += 1
            try:
                s, _ = self.emit(P(tokenize(hbody)).parse_block(), env2, hr if hr != 'Self' else self.self_repr)
            finally:
                self.depth -= 1
            return (s, hr)
        out = [self.prefix + name] + list(self.extra)
        it = iter(args_src)
        for pn, pt in params:
            if pn == 'self':
                out.append(self_arg if self_arg is not None else 'self')
            else:
                a = next(it)
                s, _ = self.emit(a, env, norm_type(pt))
                out.append(s)
        return ("(" + " ".join(out) + ")", norm_type(ret) if ret else None)

    def emit_call(self, e, env, expected):
        f, args = e[1], e[2]
        if f[0] != 'path':
            raise TranslateError("unsupported call target")
        path = f[1]
        name = path[-1]
        if path[0] == 'Self' and name == 'from' and len(args) == 1:
            s, _ = self.emit(args[0], env, self.self_repr)
            return (s, 'Self')
        if name == 'null_mut' and not args:
            return ('0', 'ptr')
        if len(path) == 2 and path[0] in WIDTH and name == 'from' and len(args) == 1:
            # u64::from(x): a lossless widening, same as `x as u64`
            sa, src = self.emit(args[0], env, None)
            if src == 'Self':
                src = self.self_repr
            return (self.cast(sa, src, path[0]), path[0])
        if name in self.fns and (len(path) == 1 or path[0] == 'Self'):
            return self.call_fn(name, args, env)
        raise TranslateError("unsupported call %s" % '::'.join(path))

    def emit_mcall(self, e, env, expected):
        _, recv, name, args = e
        # iterator fold:  nums.iter().fold(init, |acc, val| body)
        if name == 'fold' and recv[0] == 'mcall' and recv[2] == 'iter':
            lst, _ = self.emit(recv[1], env)
            init, _ = self.emit(args[0], env, 'isize')
            clo = args[1]
            if clo[0] != 'closure' or len(clo[1]) != 2:
                raise TranslateError("unsupported fold closure")
            env2 = dict(env)
            env2[clo[1][0]] = 'isize'
            env2[clo[1][1]] = 'isize'
            env2.pop('$val:' + clo[1][0], None)     # the closure's parameters shadow inlined locals of the same name
            env2.pop('$val:' + clo[1][1], None)
            body, _ = self.emit(clo[2], env2, 'isize')
            return ("(fold_left (fun %s %s => %s) %s %s)" % (clo[1][0], clo[1][1], body, lst, init), 'isize')
        if name == 'trailing_zeros' and recv[0] == 'call' and recv[1] == ('path', ['align_of']):
            return ('k', 'u32')
        r, rty = self.emit(recv, env)
        if rty == 'Self' and name in self.fns:
            return self.call_fn(name, args, env, self_arg=r)
        if name == 'is_null' and rty == 'ptr':
            return ("(%s =? 0)" % r, 'bool')
        if name == 'cast_mut':
            return (r, 'ptr')
        if name in ('wrapping_add', 'wrapping_sub') and rty in WIDTH:
            a, _ = self.emit(args[0], env, rty)
            return (self.wrap(rty, "(%s %s %s)" % (r, '+' if name == 'wrapping_add' else '-', a)), rty)
        if name == 'max' and rty == 'isize':
            a, _ = self.emit(args[0], env, 'isize')
            return ("(Z.max %s %s)" % (r, a), 'isize')
        raise TranslateError("unsupported method .%s on %s" % (name, rty))


def coq_type(t):
    t = norm_type(t)
    if t == 'bool':
        return 'bool'
    if t == 'list_isize':
        return 'list Z'
    return 'Z'


def translate_fns(fns_src, names, em, consts_env):
    """fns_src: name -> (params, ret, body); emit Definitions for `names` in order."""
    out = []
    em.bodies.update(fns_src)
    em.defined = set(names) if em.defined is None else (em.defined | set(names))
    for name in names:
        if name not in fns_src:
            raise TranslateError("function %s not found" % name)
        params, ret, body = fns_src[name]
        p = P(tokenize(body))
        ast = p.parse_block()
        env = {}
        binders = ["(%s : Z)" % x for x in em.extra]
        for pn, pt in params:
            if pn == 'self':
                env['self'] = 'Self'
                binders.append("(self : Z)")
            else:
                env[pn] = norm_type(pt)
                binders.append("(%s : %s)" % (pn, coq_type(pt)))
        rty = norm_type(ret) if ret else None
        s, _ = em.emit(ast, env, rty if rty != 'Self' else em.self_repr)
        out.append("Definition %s%s %s : %s :=\n  %s." % (em.prefix, name, " ".join(binders), coq_type(ret), s))
        em.emitted.add(name)
    return "\n\n".join(out)


HEADER = """(* GENERATED by /verif/tools/rs2v.py from %s -- do not edit; regenerated on every check. *)
From Coq Require Import ZArith List Bool.
Import ListNotations.
Local Open Scope Z_scope.
Local Open Scope bool_scope.
"""


def const_eval(ast, ty, values):
    """value of a closed constant expression (None if it is not one of the simple forms)"""
    k = ast[0]
    w = WIDTH.get(ty)
    def fit(v):
        return v % (1 << w) if (w and v is not None) else v
    if k == 'paren':
        return const_eval(ast[1], ty, values)
    if k == 'num':
        return ast[1]
    if k == 'path' and len(ast[1]) == 1 and ast[1][0] in values:
        return values[ast[1][0]]
    if k == 'path' and len(ast[1]) == 2 and ast[1][1] in values:
        return values[ast[1][1]]
    if k == 'as':
        return fit(const_eval(ast[1], ast[2] if ast[2] != '_' else ty, values))
    if k == 'bin':
        a = const_eval(ast[2], ty, values)
        b = const_eval(ast[3], ty if ast[1] not in ('<<', '>>') else 'u32', values)
        if a is None or b is None:
            return None
        op = ast[1]
        if op == '<<': return fit(a << b)
        if op == '>>': return a >> b
        if op == '+': return fit(a + b)
        if op == '-': return fit(a - b)
        if op == '*': return fit(a * b)
        if op == '/' and b: return a // b if a >= 0 and b > 0 else None
        if op == '%' and b: return a % b if a >= 0 and b > 0 else None
        if op == '&': return a & b
        if op == '|': return a | b
        if op == '^': return a ^ b
    return None


def resolve_int(tok, em, ty, what):
    """a decimal literal or a named constant with a closed value"""
    tok = tok.strip()
    v = const_eval(P(tokenize(tok)).parse_expr(), ty, em.const_values)
    if v is None:
        raise TranslateError("%s: cannot evaluate %s" % (what, tok))
    return "%d" % v


def register_consts(em, consts):
    """make constants that are not emitted as Definitions known to the emitter (inlined / folded where used)"""
    for _ in range(3):
        for name, ty, expr in consts:
            em.all_consts.setdefault(name, (ty, expr))
            if name not in em.const_values:
                try:
                    v = const_eval(P(tokenize(expr)).parse_expr(), ty, em.const_values)
                except TranslateError:
                    v = None
                if v is not None:
                    em.const_values[name] = v


def const_defs(consts, em, only=None, fold=False, tolerant=False):
    """emit Definitions for constants; fold: emit the value of a closed expression (so that `16`, `1 << 4` and
    `0x10` give the same definition); tolerant: a constant that cannot be translated on its own (e.g. it mentions a
    const generic) is not emitted but inlined where it is used"""
    out = []
    env = {}
    for name, ty, expr in consts:
        if only is not None and name not in only:
            continue
        ast = P(tokenize(expr)).parse_expr()
        try:
            v = const_eval(ast, ty, em.const_values) if fold else None
            if v is not None:
                s = "%d" % v
            else:
                s, _ = em.emit(ast, env, ty)
                v = const_eval(ast, ty, em.const_values)
        except TranslateError:
            if not tolerant:
                raise
            em.all_consts[name] = (ty, expr)
            continue
        em.consts[name] = ty
        if v is not None:
            em.const_values[name] = v
        out.append("Definition %s : Z := %s." % (name, s))
    return "\n".join(out)


PRELUDE_DEFS = """
Definition wrap (n x : Z) : Z := x mod 2 ^ n.
Definition bnot (n x : Z) : Z := 2 ^ n - 1 - x.
Definition sext (n x : Z) : Z := if x <? 2 ^ (n - 1) then x else x - 2 ^ n.
"""



# ------------------------------------------------------------------------------------------------
# the count protocol (RcInner) as a table of expressions

def _split_args(s):
    parts, depth, cur = [], 0, ''
    for ch in s:
        if ch in '([{':
            depth += 1
        elif ch in ')]}':
            depth -= 1
        if ch == ',' and depth == 0:
            parts.append(cur)
            cur = ''
        else:
            cur += ch
    if cur.strip():
        parts.append(cur)
    return [x.strip() for x in parts]


def _strip_macros(body):
    """remove the statements `vy!(..);` `debug_assert!(..);` `debug_assert_eq!(..);` (instrumentation / assertions)"""
    out = body
    while True:
        m = re.search(r"\b(?:vy|debug_assert|debug_assert_eq)!\s*\(", out)
        if not m:
            return out
        j = find_matching(out, m.end() - 1, '(', ')')
        k = j + 1
        while k < len(out) and out[k] in ' \t':
            k += 1
        if k < len(out) and out[k] == ';':
            k += 1
        out = out[:m.start()] + out[k:]


ATOMIC_RE = re.compile(r"(?:\(\s*\*\s*\w+\s*\)|\b\w+)\s*\.\s*state\s*\.\s*(load|fetch_add|fetch_sub|compare_exchange)\s*\(")


def proto_scan(body):
    """returns (text with atomic accesses replaced by LOADED/FETCHED/CASRES, accesses in textual order)"""
    acc = []
    out = body
    pos = 0
    while True:
        m = ATOMIC_RE.search(out, pos)
        if not m:
            break
        j = find_matching(out, m.end() - 1, '(', ')')
        args = _split_args(out[m.end():j])
        kind = m.group(1)
        if kind == 'load':
            rep = 'LOADED'
        elif kind in ('fetch_add', 'fetch_sub'):
            acc.append((kind, args[0]))
            rep = 'FETCHED'
        else:
            acc.append(('cas', args[0], args[1]))
            rep = 'CASRES'
        out = out[:m.start()] + rep + out[j + 1:]
        pos = m.start() + len(rep)
    out = re.sub(r"CASRES\s*\.\s*is_err\s*\(\s*\)", "CASFAILED", out)
    out = re.sub(r"CASRES\s*\.\s*is_ok\s*\(\s*\)", "CASOK", out)
    return out, acc


def proto_lets(text):
    """local `let NAME = EXPR;` bindings (EXPR may contain braces): name -> [expr sources]"""
    lets = {}
    for m in re.finditer(r"\blet\s+(?:mut\s+)?(\w+)\s*(?::\s*[^=;]+?)?=(?!=)", text):
        depth, i = 0, m.end()
        while i < len(text):
            ch = text[i]
            if ch in '([{':
                depth += 1
            elif ch in ')]}':
                depth -= 1
                if depth < 0:
                    break
            elif ch == ';' and depth == 0:
                break
            i += 1
        lets.setdefault(m.group(1), []).append(text[m.end():i].strip())
    return lets


def proto_conds(text):
    """conditions of `if` / `while` (not `if let`), and values of `break EXPR;`, in textual order"""
    out = []
    for m in re.finditer(r"\b(if|while)\s+(?!let\b)|\bbreak\s+(?=[^;\s])", text):
        i = m.end()
        depth = 0
        j = i
        stop = ';' if m.group(0).startswith('break') else '{'
        while j < len(text):
            ch = text[j]
            if ch in '([':
                depth += 1
            elif ch in ')]':
                depth -= 1
            elif ch == stop and depth == 0:
                break
            j += 1
        src = " ".join(text[i:j].split())
        out.append(('break' if stop == ';' else 'cond', src))
    return out


def gen_proto(utils, em_state, st_fns):
    fns = {}
    for hdr in (r"impl<T>\s+RcInner<T>", r"impl<T:\s*RcObject>\s+RcInner<T>"):
        fns.update(get_fns(get_impl(utils, hdr)))
    free = get_fns(cut_impls(utils))
    if 'dispose_general_node' not in free:
        raise TranslateError("dispose_general_node not found")
    fns['dispose_general_node'] = free['dispose_general_node']
    sigs = {n: (v[0], v[1]) for n, v in st_fns.items()}
    s = HEADER % "src/utils.rs (RcInner: the count protocol, function by function)" + "Require Import Params StateW.\n\n"
    s += ("(* per function, in textual order: operands of fetch_add/fetch_sub, (expected, new) of compare_exchange,\n"
          "   conditions of if/while and values of `break`, counts passed to nested decrement_strong calls.\n"
          "   LOADED / FETCHED stand for the word returned by an atomic load / fetch_add / fetch_sub. *)\n\n")
    SPEC = [
        # fn, short name, typed variables that may occur (in binder order)
        ('increment_strong', 'incs', [('val', 'Self')]),
        ('try_dealloc', 'tde', [('LOADED', 'u64')]),
        ('increment_weak', 'incw', [('old', 'Self'), ('count', 'u32'), ('FETCHED', 'u64')]),
        ('decrement_weak', 'decw', [('FETCHED', 'u64')]),
        ('is_not_destructed', 'isnd', [('old', 'Self'), ('epoch', 'usize')]),
        ('decrement_strong', 'decs', [('curr', 'Self'), ('count', 'u32'), ('epoch', 'usize')]),
        ('try_destruct', 'td', [('old', 'Self')]),
        ('dispose_general_node', 'disp', [('state', 'Self'), ('cnt_curr', 'Self'), ('next_epoch', 'isize'), ('next_cnt', 'Self'),
                                          ('depth', 'usize'), ('LOADED', 'u64'), ('CASFAILED', 'bool'), ('CASOK', 'bool')]),
    ]
    for fname, short, vars_ in SPEC:
        if fname not in fns:
            raise TranslateError("RcInner::%s not found" % fname)
        body = _strip_macros(fns[fname][2])
        text, acc = proto_scan(body)
        text = text.replace('State::from_raw', 'Self::from_raw')
        em = Emitter(dict(em_state.consts), sigs, 'u64', ['inner'])
        em.all_consts = dict(em_state.all_consts)
        em.const_values = dict(em_state.const_values)
        em.bodies.update(st_fns)
        em.defined = set(st_fns)
        em.emitted = set(st_fns)
        env = {n: t for n, t in vars_}
        known = set(env)
        state_vars = [n for n, t in vars_ if t == 'Self']
        for name, exprs in proto_lets(text).items():
            if name in known:
                continue
            # a local that holds the count word an atomic access returned is THE word variable of the function, whatever
            # the source calls it (functions with one such variable only)
            if len(state_vars) == 1 and exprs and all(re.fullmatch(r"Self::from_raw\(\s*(LOADED|FETCHED|\w+)\s*\)", e) for e in exprs):
                env[name] = 'Self'
                env['$val:' + name] = state_vars[0]
                continue
            if len(exprs) == 1:
                em.lazy_lets[name] = exprs[0]
        # a variable that has the name of a State function (`epoch`) must not shadow it in the generated term
        bname = {n: (n + '_v' if n in sigs else n) for n, _ in vars_}
        for n, b in bname.items():
            if b != n:
                env['$val:' + n] = b
        binders = " ".join("(%s : %s)" % (bname[n], 'bool' if t == 'bool' else 'Z') for n, t in vars_)

        def tr(src, expected):
            src = src.replace('State::from_raw', 'Self::from_raw')
            v, ty = em.emit(P(tokenize(src)).parse_expr(), env, expected)
            if ty == 'Self' and expected == 'u64':
                pass
            return v

        adds = [tr(a[1], 'u64') for a in acc if a[0] == 'fetch_add']
        subs = [tr(a[1], 'u64') for a in acc if a[0] == 'fetch_sub']
        cass = ["(%s, %s)" % (tr(a[1], 'u64'), tr(a[2], 'u64')) for a in acc if a[0] == 'cas']
        conds, breaks, skipped = [], [], []
        for kind, src in proto_conds(text):
            if re.fullmatch(r"\w+", src) and src not in env:
                skipped.append(src)         # a local that names the result of a loop (`if hit_zero`)
                continue
            try:
                v = tr(src, 'bool')
            except TranslateError as ex:
                if fname == 'dispose_general_node':
                    skipped.append(src)     # the Modular decisions of the cascade are in DisposeW.v
                    continue
                raise TranslateError("%s: condition `%s`: %s" % (fname, src, ex))
            (breaks if kind == 'break' else conds).append(v)
        redecs = []
        for m in re.finditer(r"\bdecrement_strong\s*\(", text):
            j = find_matching(text, m.end() - 1, '(', ')')
            a = _split_args(text[m.end():j])
            if len(a) >= 2 and not re.search(r"\bfn\s*$", text[:m.start()]):
                redecs.append(tr(a[1], 'u32'))
        rec = []
        for m in re.finditer(r"\bdispose_general_node\s*\(", text):
            j = find_matching(text, m.end() - 1, '(', ')')
            a = _split_args(text[m.end():j])
            if len(a) >= 2:
                rec.append(tr(a[1], 'usize'))
        s += "(* ---- %s *)\n" % fname
        s += "Definition P_%s_adds %s : list Z := [%s].\n" % (short, binders, "; ".join(adds))
        s += "Definition P_%s_subs %s : list Z := [%s].\n" % (short, binders, "; ".join(subs))
        s += "Definition P_%s_cas %s : list (Z * Z) := [%s].\n" % (short, binders, "; ".join(cass))
        s += "Definition P_%s_conds %s : list bool := [%s].\n" % (short, binders, "; ".join(conds))
        s += "Definition P_%s_breaks %s : list bool := [%s].\n" % (short, binders, "; ".join(breaks))
        s += "Definition P_%s_redecs %s : list Z := [%s].\n" % (short, binders, "; ".join(redecs))
        if fname == 'dispose_general_node':
            s += "Definition P_%s_depths %s : list Z := [%s].\n" % (short, binders, "; ".join(rec))
        s += "(* not translated here: %s *)\n\n" % ("; ".join(skipped) if skipped else "-")
    return s



def unguard(block):
    """`{ if C { return X; } REST }` -> `{ if C { X } else { REST } }` (one level; a guard clause is an if/else)"""
    inner = block.strip()
    if not (inner.startswith('{') and inner.endswith('}')):
        return block
    body = inner[1:-1].strip()
    m = re.match(r"if\s+([^{]+)\{\s*return\s+([^;{}]+);\s*\}\s*(.+)$", body, re.S)
    if not m:
        return block
    rest = m.group(3).strip()
    return "{ if %s { %s } else { %s } }" % (m.group(1).strip(), m.group(2).strip(), rest)


def gen_ebrproto(internal, em_epoch, ep_fns):
    """Decisions of Local::{pin, unpin, repin_without_collect, schedule_collection, incr_advance,
    incr_manual_collection, release_handle} and Global::{try_advance, collect}: every if/while condition in textual
    order and the epoch values they compute, over the thread-local fields (F_<field>), the global epoch word GEPOCH and
    a participant's announcement word LEPOCH (Epoch data words, through the generated Epoch functions)."""
    lfns = get_fns(get_impl(internal, r"impl\s+Local"))
    gfns = get_fns(get_impl(internal, r"impl\s+Global"))
    consts = {c[0]: c for c in get_consts(internal)}
    sigs = {n: (v[0], v[1]) for n, v in ep_fns.items()}
    FIELDS = ['guard_count', 'handle_count', 'advance_count', 'prev_epoch', 'pin_count', 'manual_count', 'must_collect', 'collecting']
    FTYPE = {'prev_epoch': 'Self', 'must_collect': 'bool', 'collecting': 'bool'}

    KNOWN_FNS = {'pin', 'unpin', 'repin', 'repin_without_collect', 'finalize', 'acquire_handle', 'release_handle', 'flush',
                 'push_to_global', 'schedule_collection', 'global', 'collector', 'defer', 'incr_advance',
                 'incr_manual_collection', 'is_pinned', 'register', 'collect', 'try_advance', 'push_bag'}

    def inline_helpers(body, table, depth=0):
        # a private helper without arguments that the source may have split off (`self.run_scheduled_collections();`)
        # is put back in place, so that the table does not depend on how the function is cut into pieces
        if depth > 4:
            return body
        def rep(m):
            name = m.group(1)
            if name in KNOWN_FNS or name not in table:
                return m.group(0)
            params = table[name][0]
            if [p for p in params if p[0] != 'self']:
                return m.group(0)
            inner = table[name][2].strip()
            return inline_helpers(inner[1:-1], table, depth + 1)
        return re.sub(r"\bself\s*\.\s*(\w+)\s*\(\s*\)\s*;", rep, body)

    def prep(body):
        t = _strip_macros(body)
        t = re.sub(r"debug_assert!\s*\([^;]*\);", "", t)
        t = re.sub(r"\bunsafe\s*\{\s*(\w+)\s*\}", r"\1", t)
        for f in FIELDS:
            t = re.sub(r"\bself\s*\.\s*%s\s*\.\s*get\s*\(\s*\)" % f, "F_" + f, t)
        t = re.sub(r"\bself\s*\.\s*global\s*\(\s*\)\s*\.\s*epoch\s*\.\s*load\s*\([^()]*\)", "GEPOCH", t)
        t = re.sub(r"\bself\s*\.\s*epoch\s*\.\s*load\s*\([^()]*\)", "GEPOCH" if False else "LEPOCH", t)
        t = re.sub(r"\blocal\s*\.\s*epoch\s*\.\s*load\s*\([^()]*\)", "LEPOCH", t)
        t = t.replace('Epoch::starting', 'Self::starting')
        return t

    def emitter(extra_env):
        em = Emitter({}, sigs, 'usize', ['data'], fn_prefix='e_')
        em.all_consts = dict(em_epoch.all_consts)
        em.all_consts.update({n: (c[1], c[2]) for n, c in consts.items()})
        em.bodies.update(ep_fns)
        em.defined = set(ep_fns)
        em.emitted = set(ep_fns)
        for need in ('COUNTS_BETWEEN_ADVANCE', 'COLLECTS_TRIALS', 'MANUAL_EVENTS_BETWEEN_COLLECT'):
            em.consts[need] = 'usize'
        return em

    s = HEADER % "src/ebr_impl/internal.rs (Local / Global: the decisions of the EBR core)" + "Require Import Params EpochW.\n\n"
    s += ("(* F_<field> = the value of the thread-local Cell <field>; GEPOCH = the word loaded from the global epoch;\n"
          "   LEPOCH = the word loaded from a participant's announcement; Epoch words through Gen/EpochW.v *)\n\n")
    SPEC = [
        ('try_advance', gfns, 'adv', [('global_epoch', 'Self'), ('LEPOCH', 'Self')], ['new_epoch']),
        ('pin', lfns, 'pin', [('guard_count', 'usize'), ('GEPOCH', 'Self'), ('global_epoch', 'Self'), ('F_prev_epoch', 'Self')], ['new_epoch']),
        ('unpin', lfns, 'unpin', [('guard_count', 'usize'), ('F_collecting', 'bool'), ('F_must_collect', 'bool'), ('F_handle_count', 'usize')], []),
        ('repin_without_collect', lfns, 'repin', [('LEPOCH', 'Self'), ('GEPOCH', 'Self')], ['global_epoch']),
        ('schedule_collection', lfns, 'sched', [('F_collecting', 'bool'), ('F_guard_count', 'usize')], []),
        ('incr_advance', lfns, 'incadv', [('F_advance_count', 'usize')], ['advance_count']),
        ('incr_manual_collection', lfns, 'incman', [('F_manual_count', 'usize')], ['manual_count']),
        ('release_handle', lfns, 'relh', [('F_guard_count', 'usize'), ('F_handle_count', 'usize')], []),
    ]
    for fname, table, short, vars_, lets_wanted in SPEC:
        if fname not in table:
            raise TranslateError("internal.rs: fn %s not found" % fname)
        text = prep(inline_helpers(table[fname][2], table))
        em = emitter(None)
        env = {n: t for n, t in vars_}
        lets = proto_lets(text)
        # the function's own `let guard_count = self.guard_count.get();` style bindings name a field value
        for name, exprs in lets.items():
            if name in env:
                continue
            exprs = [e for e in exprs if not re.match(r"(loop|match|unsafe|while|for)\b", e)]
            lets[name] = exprs
            if len(exprs) == 1:
                em.lazy_lets[name] = exprs[0]
        binders = " ".join("(%s : %s)" % (n, 'bool' if t == 'bool' else 'Z') for n, t in vars_)
        conds = []
        for kind, src in proto_conds(text):
            if src.startswith('cfg!') or src.startswith('let '):
                continue
            if kind == 'break' and re.fullmatch(r"\w+", src):
                continue
            try:
                v, _ = em.emit(P(tokenize(src)).parse_expr(), env, 'bool')
            except TranslateError as ex:
                raise TranslateError("%s: condition `%s`: %s" % (fname, src, ex))
            conds.append(v)
        s += "(* ---- %s *)\n" % fname
        s += "Definition E_%s_conds %s : list bool := [%s].\n" % (short, binders, "; ".join(conds))
        for ln in lets_wanted:
            if ln in ('advance_count', 'manual_count'):
                # the value written back into the counter Cell: `self.<field>.set(X)`
                mm = re.search(r"\bself\s*\.\s*%s\s*\.\s*set\s*\(" % ln, text)
                if not mm:
                    raise TranslateError("%s: the counter %s is not written" % (fname, ln))
                j = find_matching(text, mm.end() - 1, '(', ')')
                v, _ = em.emit(P(tokenize(text[mm.end():j])).parse_expr(), env, 'usize')
                s += "Definition E_%s_%s %s : Z := %s.\n" % (short, ln, binders, v)
                continue
            # the epoch word published: the argument of `.epoch.store(X, ..)` / the new value of `.epoch.compare_exchange(_, X, ..)`
            stores = []
            for mm in re.finditer(r"\.\s*epoch\s*\.\s*(store|compare_exchange)\s*\(", text):
                j = find_matching(text, mm.end() - 1, '(', ')')
                a = _split_args(text[mm.end():j])
                src = a[0] if mm.group(1) == 'store' else a[1]
                v, _ = em.emit(P(tokenize(src)).parse_expr(), env, 'usize')
                if v not in stores:
                    stores.append(v)
            nonzero = [v for v in stores if v not in ('0', 'e_starting', '(e_starting)')]
            if len(nonzero) != 1:
                raise TranslateError("%s: expected exactly one published epoch word, found %s" % (fname, stores))
            s += "Definition E_%s_%s %s : Z := %s.\n" % (short, ln, binders, nonzero[0])
        s += "\n"
    # collect: the number of conditional pops
    if 'collect' not in gfns:
        raise TranslateError("internal.rs: fn collect not found")
    m = re.search(r"for\s+_\s+in\s+0\s*\.\.\s*((?:\w+\s*::\s*)*\w+)\s*\{", prep(gfns['collect'][2]))
    if not m:
        raise TranslateError("collect: the loop over the conditional pops has an unexpected shape")
    em = emitter(None)
    s += "(* ---- collect: `for _ in 0..%s` *)\n" % m.group(1)
    s += "Definition E_collect_trials : Z := %s.\n" % em.emit(P(tokenize(m.group(1))).parse_expr(), {}, 'usize')[0]
    return s



def gen_apicalls(strong_src, weak_src):
    """For every function of strong.rs / weak.rs (inherent and trait impls, free functions): the calls to the count protocol of
    RcInner it makes, in textual order, with the count and the guard argument; calls to private helpers of the same file are replaced
    by the helper's own list (parameters substituted).  Only entry points (pub / trait impl functions) are listed."""
    CORE = {'increment_strong': 0, 'decrement_strong': 3, 'increment_weak': 1, 'decrement_weak': 2, 'is_not_destructed': 0, 'alloc': 2}

    def norm(a):
        a = re.sub(r"\s+", "", a)
        a = re.sub(r"as(?:u32|u64|usize|_)$", "", a)
        a = re.sub(r"^self\.", "", a)
        return a

    def acount(a):
        a = norm(a)
        if re.fullmatch(r"\d+", a):
            return "(CNum %s)" % a
        return '(CVar "%s")' % a

    def aguard(a):
        a = norm(a)
        if a == 'None':
            return 'GNone'
        if a.startswith('Some('):
            return 'GSome'
        return '(GVar "%s")' % a

    out = []
    for fname_, src in (('strong', strong_src), ('weak', weak_src)):
        src = re.sub(r"#\[cfg\(circ_verif\)\]\s*pub\s+mod\s+\w+\s*\{", "@@VERIFMOD{", src)
        # cut the verification shims
        while True:
            m = re.search(r"@@VERIFMOD\{", src)
            if not m:
                break
            j = find_matching(src, m.end() - 1)
            src = src[:m.start()] + src[j + 1:]
        table = {}      # key -> (is_entry, params, body)
        for m in re.finditer(r"(?m)^(?:unsafe\s+)?impl\b([^{;]*)\{", src):
            hd = " ".join(m.group(1).split())
            j = find_matching(src, m.end() - 1)
            block = src[m.end():j]
            mt = re.search(r"(?:(\S.*?)\s+for\s+)?(\w+)(?:<[^{]*>)?\s*$", re.sub(r"^<[^>]*(?:<[^>]*>[^>]*)*>\s*", "", hd))
            if not mt:
                continue
            trait, ty = mt.group(1), mt.group(2)
            for fm in re.finditer(r"((?:pub(?:\([a-z]+\))?\s+)?)(?:const\s+)?(?:unsafe\s+)?fn\s+(\w+)\s*(?:<[^>]*>)?\s*\(", block):
                pclose = find_matching(block, fm.end() - 1, '(', ')')
                rest = block[pclose + 1:]
                # the body starts at the first `{` outside brackets; a `;` outside brackets first = a declaration without body
                b, dpt = -1, 0
                for ii, ch in enumerate(rest.replace('->', '  ')):
                    if ch in '[(<':
                        dpt += 1
                    elif ch in '])>':
                        dpt -= 1
                    elif ch == ';' and dpt <= 0:
                        break
                    elif ch == '{' and dpt <= 0:
                        b = ii
                        break
                if b < 0:
                    continue
                bend = find_matching(block, pclose + 1 + b)
                params = [x.split(':')[0].strip().replace('mut ', '').replace('&', '') for x in _split_args(block[fm.end():pclose]) if x.strip()]
                key = ("%s for %s::%s" % (re.sub(r"<.*", "", trait), ty, fm.group(2))) if trait else ("%s::%s" % (ty, fm.group(2)))
                entry = bool(trait) or fm.group(1).strip() == 'pub'
                table[key] = (entry, params, block[pclose + 1 + b:bend + 1], ty)
        cut = cut_impls(src)
        for fm in re.finditer(r"((?:pub(?:\([a-z]+\))?\s+)?)(?:unsafe\s+)?fn\s+(\w+)\s*(?:<[^>]*>)?\s*\(", cut):
            pclose = find_matching(cut, fm.end() - 1, '(', ')')
            rest = cut[pclose + 1:]
            b = rest.find('{')
            if b < 0:
                continue
            bend = find_matching(cut, pclose + 1 + b)
            params = [x.split(':')[0].strip().replace('mut ', '') for x in _split_args(cut[fm.end():pclose]) if x.strip()]
            table["::" + fm.group(2)] = (fm.group(1).strip() == 'pub', params, cut[pclose + 1 + b:bend + 1], '')

        memo = {}

        def calls(key, depth=0):
            if key in memo:
                return memo[key]
            if depth > 6:
                raise TranslateError("%s: helper recursion" % key)
            entry, params, body, ty = table[key]
            text = _strip_macros(body)
            res = []
            for m in re.finditer(r"(?:(\w+)\s*::\s*|\.\s*|\b)(\w+)\s*\(", text):
                name = m.group(2)
                j = find_matching(text, m.end() - 1, '(', ')')
                args = _split_args(text[m.end():j])
                is_method = text[m.start()] == '.'
                if name in CORE:
                    full = len(args) + (1 if is_method else 0)
                    # core call (the RcInner function): by its arity; `weak.increment_weak()` without a count is a helper of weak.rs
                    if name == 'increment_strong' and is_method and not args:
                        res.append('AIncS'); continue
                    if name == 'is_not_destructed' and is_method and not args:
                        res.append('AIsND'); continue
                    if name == 'increment_weak' and is_method and len(args) == 1:
                        res.append('(AIncW %s)' % acount(args[0])); continue
                    if name == 'decrement_strong' and not is_method and len(args) == 3:
                        res.append('(ADecS %s %s)' % (acount(args[1]), aguard(args[2]))); continue
                    if name == 'decrement_weak' and not is_method and len(args) == 2:
                        res.append('(ADecW %s)' % aguard(args[1])); continue
                    if name == 'alloc' and m.group(1) == 'RcInner' and len(args) == 2:
                        res.append('(AAlloc %s)' % acount(args[1])); continue
                # a private helper of this file
                cands = [k for k in table if k.endswith("::" + name) and not table[k][0]]
                if m.group(1) in ('Self',) or is_method:
                    cands = [k for k in cands if table[k][3] in (ty, '')] or cands
                if len(cands) == 1 and cands[0] != key:
                    hk = cands[0]
                    sub = calls(hk, depth + 1)
                    hparams = [p_ for p_ in table[hk][1] if p_ != 'self']
                    for c_ in sub:
                        for pn, av in zip(hparams, args):
                            av_n = norm(av)
                            if av_n == 'None':
                                c_ = c_.replace('(GVar "%s")' % pn, 'GNone')
                            elif av_n.startswith('Some('):
                                c_ = c_.replace('(GVar "%s")' % pn, 'GSome')
                            else:
                                c_ = c_.replace('(GVar "%s")' % pn, '(GVar "%s")' % av_n)
                            if re.fullmatch(r"\d+", av_n):
                                c_ = c_.replace('(CVar "%s")' % pn, '(CNum %s)' % av_n)
                            else:
                                c_ = c_.replace('(CVar "%s")' % pn, '(CVar "%s")' % av_n)
                        res.append(c_)
            memo[key] = res
            return res

        for key in sorted(table):
            if table[key][0]:
                cl = calls(key)
                if cl:
                    out.append('("%s.rs %s", [%s])' % (fname_, key, "; ".join(cl)))
    s = HEADER % "src/strong.rs, src/weak.rs (the count operations every entry point performs)"
    s += "From Coq Require Import String.\nLocal Open Scope string_scope.\n\n"
    s += "Inductive acount := CNum (n : Z) | CVar (name : string).\nInductive aguard := GNone | GSome | GVar (name : string).\n"
    s += "Inductive acall := AIncS | ADecS (cnt : acount) (g : aguard) | AIncW (cnt : acount) | ADecW (g : aguard) | AIsND | AAlloc (cnt : acount).\n\n"
    s += "Definition api_calls : list (string * list acall) :=\n  [ " + ";\n    ".join(out) + " ].\n"
    return s


def gen(repo):
    files = {}
    failed = {}

    def rd(rel):
        with open(os.path.join(repo, rel)) as f:
            return cut_cfg_test(strip_comments(f.read()))

    utils = rd('src/utils.rs')
    pointers = rd('src/ebr_impl/pointers.rs')
    epoch = rd('src/ebr_impl/epoch.rs')
    internal = rd('src/ebr_impl/internal.rs')
    deferred = rd('src/ebr_impl/deferred.rs')

    # ---------------- Params.v : shared prelude + HIGH_TAG_WIDTH + tuning constants
    try:
        prelude = HEADER % "src/ebr_impl/pointers.rs, internal.rs, deferred.rs" + PRELUDE_DEFS
        em0 = Emitter({}, {}, 'usize', [])
        pc = [c for c in get_consts(pointers) if c[0] == 'HIGH_TAG_WIDTH']
        if len(pc) != 1:
            raise TranslateError("HIGH_TAG_WIDTH not found in pointers.rs")
        params_v = prelude + "\n" + const_defs(pc, em0, fold=True) + "\n"
        ic = {c[0]: c for c in get_consts(internal)}
        register_consts(em0, get_consts(pointers) + get_consts(internal) + get_consts(deferred))
        for need in ('MAX_OBJECTS', 'MANUAL_EVENTS_BETWEEN_COLLECT', 'COLLECTS_TRIALS', 'COUNTS_BETWEEN_ADVANCE'):
            if need not in ic:
                raise TranslateError("%s not found in internal.rs" % need)
            params_v += const_defs([ic[need]], em0, fold=True) + "\n"
        dc = {c[0]: c for c in get_consts(deferred)}
        if 'DATA_WORDS' not in dc:
            raise TranslateError("DATA_WORDS not found in deferred.rs")
        params_v += const_defs([dc['DATA_WORDS']], em0, fold=True) + "\n"
        # is_expired threshold
        sb = get_fns(get_impl(internal, r"impl\s+SealedBag"))
        if 'is_expired' not in sb:
            raise TranslateError("SealedBag::is_expired not found")
        m = re.fullmatch(r"\{\s*global_epoch\.wrapping_sub\(self\.epoch\)\s*>=\s*((?:\w+\s*::\s*)*\w+)\s*\}", sb['is_expired'][2].strip())
        if not m:
            raise TranslateError("is_expired body has an unexpected shape: %s" % sb['is_expired'][2])
        params_v += "Definition EXPIRE_AFTER : Z := %s.\n" % resolve_int(m.group(1), em0, 'isize', "is_expired threshold")
        files['Params.v'] = params_v
    except TranslateError as ex:
        failed['Params.v'] = str(ex)
    except (NameError, KeyError, UnboundLocalError) as ex:
        failed['Params.v'] = 'depends on a part of the source that could not be translated (%s)' % ex
    # ---------------- StateW.v
    try:
        uc = get_consts(utils)
        names = [c[0] for c in uc]
        for need in ('EPOCH_WIDTH', 'EPOCH_MASK_HEIGHT', 'EPOCH', 'DESTRUCTED', 'WEAKED', 'TOTAL_COUNT_WIDTH',
                     'WEAK_WIDTH', 'STRONG_WIDTH', 'STRONG', 'WEAK', 'COUNT', 'WEAK_COUNT'):
            if need not in names:
                raise TranslateError("const %s not found in utils.rs" % need)
        st_fns = get_fns(get_impl(utils, r"impl\s+State"))
        sigs = {n: (v[0], v[1]) for n, v in st_fns.items()}
        em = Emitter({'HIGH_TAG_WIDTH': 'u32'}, sigs, 'u64', ['inner'])
        s = HEADER % "src/utils.rs (consts, impl State, RcInner::alloc)" + "Require Import Params.\n\n"
        NEEDED = ('EPOCH_WIDTH', 'EPOCH_MASK_HEIGHT', 'EPOCH', 'DESTRUCTED', 'WEAKED', 'TOTAL_COUNT_WIDTH',
                  'WEAK_WIDTH', 'STRONG_WIDTH', 'STRONG', 'WEAK', 'COUNT', 'WEAK_COUNT')
        s += const_defs(uc, em, only=NEEDED) + "\n\n"
        # any other constant of the file (also associated / function-local ones) is inlined where it is used
        em.all_consts.update({c[0]: (c[1], c[2]) for c in uc if c[0] not in NEEDED})
        order = ['from_raw', 'epoch', 'strong', 'weak', 'destructed', 'weaked', 'with_epoch', 'add_strong',
                 'sub_strong', 'add_weak', 'with_destructed', 'with_weaked', 'as_raw']
        s += translate_fns(st_fns, order, em, None) + "\n\n"
        # alloc's initial word
        m = re.search(r"state:\s*AtomicU64::new\(([^;]*?)\),\s*\}", utils)
        if not m:
            raise TranslateError("RcInner::alloc initial word not found")
        ast = P(tokenize(m.group(1))).parse_expr()
        w, _ = em.emit(ast, {'init_strong': 'u32'}, 'u64')
        s += "Definition alloc_word (init_strong : Z) : Z :=\n  %s.\n" % w
        files['StateW.v'] = s
    except TranslateError as ex:
        failed['StateW.v'] = str(ex)
    except (NameError, KeyError, UnboundLocalError) as ex:
        failed['StateW.v'] = 'depends on a part of the source that could not be translated (%s)' % ex
    # ---------------- ModularW.v
    try:
        mo_fns = get_fns(get_impl(utils, r"impl<const WIDTH: u32>\s+Modular<WIDTH>"))
        sigs = {n: (v[0], v[1]) for n, v in mo_fns.items()}
        emm = Emitter({'WIDTH': 'u32'}, sigs, 'isize', ['max'], extra_params=['WIDTH'], fn_prefix='m_')
        emm.all_consts.update({c[0]: (c[1], c[2]) for c in uc if c[0] not in NEEDED})
        s = HEADER % "src/utils.rs (impl Modular)" + "Require Import Params.\n\n"
        s += translate_fns(mo_fns, ['new', 'trans', 'inver', 'max', 'le'], emm, None) + "\n"
        files['ModularW.v'] = s
    except TranslateError as ex:
        failed['ModularW.v'] = str(ex)
    except (NameError, KeyError, UnboundLocalError) as ex:
        failed['ModularW.v'] = 'depends on a part of the source that could not be translated (%s)' % ex
    # ---------------- DisposeW.v : decision expressions of dispose_general_node + increments
    try:
        m = re.search(r"unsafe fn dispose_general_node<[^{]*\{", utils)
        if not m:
            raise TranslateError("dispose_general_node not found")
        dend = find_matching(utils, m.end() - 1)
        body = utils[m.end():dend]

        def one(pattern, what):
            mm = re.search(pattern, body, re.S)
            if not mm:
                raise TranslateError("dispose_general_node: pattern for %s not found" % what)
            return mm

        m_modu = one(r"let\s+modu\s*:\s*Modular<(\w+)>\s*=\s*Modular::new\(([^;]*)\);", "Modular::new")
        m_cond = one(r"if\s+(depth == 0 \|\| )?modu\.le\(([^,]*),([^)]*)\)\s*\{", "modu.le")
        m_max = one(r"modu\.max\(&\[([^\]]*)\]\)", "modu.max")
        m_cap = one(r"if\s+depth\s*>=\s*((?:\w+\s*::\s*)*\w+)\s*\{", "depth cap")
        m_rep = one(r"if\s+count\s*%\s*((?:\w+\s*::\s*)*\w+)\s*==\s*0", "repin interval")
        if m_cond.group(1) is None:
            root_always = 'false'
        else:
            root_always = 'true'
        emd = Emitter({'EPOCH_WIDTH': 'u32'}, {}, 'isize', [])
        register_consts(emd, [c for c in uc if c[0] not in NEEDED])
        # immutable locals of the function that only name an expression over the values the model knows
        # (e.g. `let newest = curr_epoch as isize + 1;`) are inlined into the extracted expressions
        for lm in re.finditer(r"let\s+(\w+)\s*(?::\s*[\w<>]+\s*)?=\s*([^;{}]+);", body):
            if lm.group(1) not in ('next_epoch', 'modu', 'curr_epoch', 'node_epoch', 'link_epoch', 'child_epoch') and \
                    len(re.findall(r"let\s+(?:mut\s+)?%s\b" % lm.group(1), body)) == 1:
                emd.lazy_lets[lm.group(1)] = lm.group(2)
        envd = {'curr_epoch': 'usize', 'node_epoch': 'u32', 'link_epoch': 'u32', 'child_epoch': 'u32'}
        width = m_modu.group(1)
        if width not in [c[0] for c in uc]:
            raise TranslateError("Modular width const %s unknown" % width)
        mx, _ = emd.emit(P(tokenize(m_modu.group(2))).parse_expr(), envd, 'isize')
        la, _ = emd.emit(P(tokenize(m_cond.group(2))).parse_expr(), envd, 'isize')
        lb, _ = emd.emit(P(tokenize(m_cond.group(3))).parse_expr(), envd, 'isize')
        maxargs = [x.strip() for x in split_top(m_max.group(1)) if x.strip()]
        margs = []
        for a in maxargs:
            a2 = a.replace('cnt_curr.epoch()', 'child_epoch')
            sa, _ = emd.emit(P(tokenize(a2)).parse_expr(), envd, 'isize')
            margs.append(sa)
        s = HEADER % "src/utils.rs (dispose_general_node, increment paths)" + "Require Import Params StateW ModularW.\n\n"
        m_age = re.fullmatch(r"\s*curr_epoch as isize - ((?:\w+\s*::\s*)*\w+)\s*", m_cond.group(3))
        if not m_age:
            raise TranslateError("reclaim threshold has an unexpected shape: %s" % m_cond.group(3))
        s += "Definition RECLAIM_AGE : Z := %s.\n" % resolve_int(m_age.group(1), emd, 'isize', "reclaim threshold")
        s += "Definition DEPTH_CAP : Z := %s.\n" % resolve_int(m_cap.group(1), emd, 'usize', "depth cap")
        s += "Definition REPIN_EVERY : Z := %s.\n" % resolve_int(m_rep.group(1), emd, 'usize', "repin interval")
        s += "Definition ROOT_ALWAYS : bool := %s.\n" % root_always
        s += "Definition modu_max_of (curr_epoch : Z) : Z := %s.\n" % mx
        s += "(* `modu.le(%s, %s)` of the reclaim-now test *)\n" % (m_cond.group(2).strip(), m_cond.group(3).strip())
        s += "Definition reclaim_now (curr_epoch node_epoch : Z) : bool :=\n  m_le %s (modu_max_of curr_epoch) %s %s.\n" % (width, la, lb)
        s += "(* `modu.max(&[%s])` : the stamp written into a child *)\n" % m_max.group(1).strip()
        s += "Definition merged (curr_epoch node_epoch link_epoch child_epoch : Z) : Z :=\n  m_max %s (modu_max_of curr_epoch) [%s].\n" % (width, "; ".join(margs))
        s += "Definition dispose_here (depth curr_epoch node_epoch : Z) : bool :=\n  (ROOT_ALWAYS && (depth =? 0)) || reclaim_now curr_epoch node_epoch.\n"
        # the stamp actually written: the maximum, optionally clamped (repair of finding D13)
        m_clamp = re.search(r"let\s+next_epoch\s*=\s*if\s+modu\.le\(\s*next_epoch\s*,([^)]*)\)\s*\{\s*next_epoch\s*\}\s*else\s*\{([^}]*)\}\s*;", body, re.S)
        if m_clamp:
            cb, _ = emd.emit(P(tokenize(m_clamp.group(1))).parse_expr(), envd, 'isize')
            ca, _ = emd.emit(P(tokenize(m_clamp.group(2))).parse_expr(), envd, 'isize')
            s += "(* `if modu.le(next_epoch, %s) { next_epoch } else { %s }` *)\n" % (m_clamp.group(1).strip(), " ".join(m_clamp.group(2).split()))
            s += "Definition STAMP_CLAMPED : bool := true.\n"
            s += ("Definition child_stamp (curr_epoch node_epoch link_epoch child_epoch : Z) : Z :=\n"
                  "  let next_epoch := merged curr_epoch node_epoch link_epoch child_epoch in\n"
                  "  if m_le %s (modu_max_of curr_epoch) next_epoch %s then next_epoch else %s.\n" % (width, cb, ca))
        else:
            if len(re.findall(r"let\s+next_epoch\s*=", body)) != 1:
                raise TranslateError("dispose_general_node: next_epoch is rebound in a way the translator does not know")
            s += "Definition STAMP_CLAMPED : bool := false.\n"
            s += ("Definition child_stamp (curr_epoch node_epoch link_epoch child_epoch : Z) : Z :=\n"
                  "  merged curr_epoch node_epoch link_epoch child_epoch.\n")
        files['DisposeW.v'] = s
    except TranslateError as ex:
        failed['DisposeW.v'] = str(ex)
    except (NameError, KeyError, UnboundLocalError) as ex:
        failed['DisposeW.v'] = 'depends on a part of the source that could not be translated (%s)' % ex
    # ---------------- ProtoW.v : the count protocol of RcInner (utils.rs) function by function: operands of every
    # fetch_add / fetch_sub, (expected, new) of every compare_exchange, every branch condition, in textual order.
    try:
        files['ProtoW.v'] = gen_proto(utils, em, st_fns)
    except TranslateError as ex:
        failed['ProtoW.v'] = str(ex)
    except (NameError, KeyError, UnboundLocalError) as ex:
        failed['ProtoW.v'] = 'depends on a part of the source that could not be translated (%s)' % ex
    # ---------------- TaggedW.v
    try:
        tg_fns = get_fns(get_impl(pointers, r"impl<T>\s+Tagged<T>"))
        free = get_fns(cut_impls(pointers))
        for need in ('low_bits', 'with_tag'):
            if need not in free:
                raise TranslateError("free function %s not found in pointers.rs" % need)
        # free functions first (prefix f_), then the impl
        fsigs = {'low_bits': (free['low_bits'][0], free['low_bits'][1])}
        emf = Emitter({'HIGH_TAG_WIDTH': 'u32'}, fsigs, 'ptr', ['ptr'], extra_params=['k'], fn_prefix='f_')
        s = HEADER % "src/ebr_impl/pointers.rs (impl Tagged, low_bits, with_tag)" + "Require Import Params.\n\n"
        s += "(* every function takes k = align_of::<T>().trailing_zeros() as its first argument *)\n"
        s += translate_fns({'low_bits': free['low_bits']}, ['low_bits'], emf, None) + "\n\n"
        # free with_tag: rename to avoid the clash with the method
        emf2 = Emitter({'HIGH_TAG_WIDTH': 'u32'}, fsigs, 'ptr', ['ptr'], extra_params=['k'], fn_prefix='f_')
        s += translate_fns({'with_tag': free['with_tag']}, ['with_tag'], emf2, None) + "\n\n"

        class TaggedEmitter(Emitter):
            def emit_call(self, e, env, expected):
                f, args = e[1], e[2]
                if f[0] == 'path' and f[1] == ['low_bits']:
                    return ("(f_low_bits k)", 'usize')
                if f[0] == 'path' and f[1] == ['with_tag']:
                    a, _ = self.emit(args[0], env, 'ptr')
                    b, _ = self.emit(args[1], env, 'usize')
                    return ("(f_with_tag k %s %s)" % (a, b), 'ptr')
                return Emitter.emit_call(self, e, env, expected)

        sigs = {n: (v[0], v[1]) for n, v in tg_fns.items()}
        emt = TaggedEmitter({'HIGH_TAG_WIDTH': 'u32'}, sigs, 'ptr', ['ptr'], extra_params=['k'], fn_prefix='t_')
        emt.all_consts.update({c[0]: (c[1], c[2]) for c in get_consts(pointers) if c[0] != 'HIGH_TAG_WIDTH'})
        order = ['high_bits_pos', 'high_bits', 'null', 'tag', 'high_tag', 'as_raw', 'is_null', 'with_tag',
                 'with_high_tag', 'ptr_eq']
        s += translate_fns(tg_fns, order, emt, None) + "\n"
        files['TaggedW.v'] = s
        # ---------------- ApiTagW.v : the tag / null / identity accessors of the four handle types, over TaggedW
        try:
            strong_src = rd('src/strong.rs')
            weak_src = rd('src/weak.rs')
            a = HEADER % "src/strong.rs, src/weak.rs (is_null / tag / with_tag / ptr_eq / as_ref of Rc, Snapshot, Weak, WeakSnapshot)"
            a += "Require Import Params TaggedW.\n\n(* p, q: the pointer words held by the handle(s); k = log2 of the alignment of the pointee *)\n\n"
            HANDLES = [('rc', strong_src, 'Rc'), ('snap', strong_src, 'Snapshot'), ('weak', weak_src, 'Weak'), ('wsnap', weak_src, 'WeakSnapshot')]
            for hname, src, tyname in HANDLES:
                # a handle type may have several inherent impl blocks: collect the functions of all of them
                fns = {}
                for mm in re.finditer(r"(?m)^impl\b([^{;]*)\{", src):
                    hd = mm.group(1)
                    if ' for ' in hd or not re.search(r"\s%s<[^{]*>\s*$" % tyname, hd):
                        continue
                    j = find_matching(src, mm.end() - 1)
                    fns.update(get_fns(src[mm.end():j]))
                for need in ('is_null', 'tag', 'with_tag', 'ptr_eq'):
                    if need not in fns:
                        raise TranslateError("%s::%s not found" % (hname, need))

                def api_expr(src_e, cur, emx):
                    t = src_e
                    t = re.sub(r"\b(?:self|result)\s*\.\s*is_null\s*\(\s*\)", "PTR.is_null()", t)
                    t = re.sub(r"\b(?:self|result)\s*\.\s*ptr\b", "PTR", t)
                    t = re.sub(r"\bother\s*\.\s*ptr\b", "OPTR", t)
                    env = {'PTR': 'Self', 'OPTR': 'Self', 'tag': 'usize', '$val:PTR': cur, '$val:OPTR': 'q'}
                    v, _ = emx.emit(P(tokenize(t)).parse_expr(), env, None)
                    return v

                def api_body(body, emx):
                    # a straight-line body over the one mutable field `ptr`: assignments (possibly under an `if` without
                    # `else`), then the handle itself / Self::from_raw(E) / a plain expression
                    t = _strip_macros(body.strip()[1:-1])
                    t = re.sub(r"let\s+mut\s+(\w+)\s*=\s*self\s*;", lambda m_: "@ALIAS %s;" % m_.group(1), t)
                    al = re.search(r"@ALIAS (\w+);", t)
                    if al:
                        t = t.replace(al.group(0), "")
                        t = re.sub(r"\b%s\b" % al.group(1), "self", t)
                    cur = 'p'
                    rest = t.strip()
                    while True:
                        m1 = re.match(r"self\s*\.\s*ptr\s*=\s*([^;]+);", rest)
                        m2 = re.match(r"if\s+([^{]+)\{\s*self\s*\.\s*ptr\s*=\s*([^;]+);\s*\}", rest)
                        if m1:
                            cur = api_expr(m1.group(1), cur, emx)
                            rest = rest[m1.end():].strip()
                        elif m2:
                            c = api_expr(m2.group(1), cur, emx)
                            v = api_expr(m2.group(2), cur, emx)
                            cur = "(if %s then %s else %s)" % (c, v, cur)
                            rest = rest[m2.end():].strip()
                        else:
                            break
                    if rest == 'self':
                        return cur
                    m3 = re.fullmatch(r"Self::from_raw\((.*)\)", rest, re.S)
                    if m3:
                        return api_expr(m3.group(1), cur, emx)
                    m4 = re.fullmatch(r"Self\s*\{\s*ptr\s*:\s*(.+?)\s*,\s*(?:_marker\s*:\s*PhantomData\s*,?\s*)?\}", rest, re.S)
                    if m4:
                        return api_expr(m4.group(1), cur, emx)
                    if ';' in rest or '{' in rest:
                        raise TranslateError("%s: body has a shape the translator does not know: %s" % (hname, " ".join(rest.split())[:120]))
                    return api_expr(rest, cur, emx)

                emx = TaggedEmitter({'HIGH_TAG_WIDTH': 'u32'}, sigs, 'ptr', ['ptr'], extra_params=['k'], fn_prefix='t_')
                emx.all_consts.update(emt.all_consts)
                emx.bodies.update(tg_fns)
                emx.defined = set(tg_fns)
                emx.emitted = set(tg_fns)
                a += "(* ---- %s *)\n" % hname
                a += "Definition %s_is_null (k p : Z) : bool := %s.\n" % (hname, api_body(fns['is_null'][2], emx))
                a += "Definition %s_tag (k p : Z) : Z := %s.\n" % (hname, api_body(fns['tag'][2], emx))
                a += "Definition %s_with_tag (k p tag : Z) : Z := %s.\n" % (hname, api_body(fns['with_tag'][2], emx))
                a += "Definition %s_ptr_eq (k p q : Z) : bool := %s.\n" % (hname, api_body(fns['ptr_eq'][2], emx))
                if 'as_ref' in fns:
                    mm = re.search(r"if\s+([^{]+)\{\s*(?:return\s+)?None\s*;?\s*\}", fns['as_ref'][2])
                    if not mm:
                        raise TranslateError("%s::as_ref: null test not found" % hname)
                    a += "Definition %s_as_ref_is_none (k p : Z) : bool := %s.\n" % (hname, api_expr(mm.group(1), 'p', emx))
                a += "\n"
            files['ApiTagW.v'] = a
        except TranslateError as ex:
            failed['ApiTagW.v'] = str(ex)
        # ---------------- CellProtoW.v : the words AtomicRc / AtomicWeak write into a link, and when their CAS loops retry
        try:
            strong_src = rd('src/strong.rs')
            weak_src = rd('src/weak.rs')

            class CellEmitter(TaggedEmitter):
                def emit_mcall(self, e, env, expected):
                    _, recv, name, args = e
                    if name == 'with_timestamp' and not args:
                        r, _ = self.emit(recv, env)
                        return ("(c_with_timestamp k E %s)" % r, 'Self')
                    return TaggedEmitter.emit_mcall(self, e, env, expected)

                def emit_call(self, e, env, expected):
                    f, args = e[1], e[2]
                    if f[0] == 'path' and f[1] == ['global_epoch'] and not args:
                        return ('E', 'usize')
                    return TaggedEmitter.emit_call(self, e, env, expected)

            def cell_emitter():
                emx = CellEmitter({'HIGH_TAG_WIDTH': 'u32'}, sigs, 'ptr', ['ptr'], extra_params=['k'], fn_prefix='t_')
                emx.all_consts.update(emt.all_consts)
                emx.bodies.update(tg_fns)
                emx.defined = set(tg_fns)
                emx.emitted = set(tg_fns)
                return emx

            c = HEADER % "src/strong.rs, src/weak.rs (AtomicRc / AtomicWeak: words written into a link, retry tests of the CAS loops)"
            c += "Require Import Params TaggedW.\n\n"
            c += "(* k = log2 alignment, E = the global epoch read by with_timestamp; h = the word of the Rc / Weak handed in,\n   ex = the word of the expected Snapshot, cur = the word a failed hardware CAS returned, tag = desired_tag *)\n\n"
            mts = re.search(r"fn\s+with_timestamp\s*\(\s*self\s*\)\s*->\s*Self\s*\{", strong_src)
            if not mts:
                raise TranslateError("Tagged::with_timestamp not found in strong.rs")
            j = find_matching(strong_src, mts.end() - 1)
            body = unguard(_strip_macros(strong_src[mts.end() - 1:j + 1]))
            emx = cell_emitter()
            v, _ = emx.emit(P(tokenize(body)).parse_block(), {'self': 'Self'}, 'ptr')
            c += "Definition c_with_timestamp (k E self : Z) : Z :=\n  %s.\n\n" % v
            for cname, src, tyname in (('CS', strong_src, 'AtomicRc'), ('CW', weak_src, 'AtomicWeak')):
                fns = {}
                for mm in re.finditer(r"(?m)^impl\b([^{;]*)\{", src):
                    hd = mm.group(1)
                    if ' for ' in hd or not re.search(r"\s%s<[^{]*>\s*$" % tyname, hd):
                        continue
                    j = find_matching(src, mm.end() - 1)
                    fns.update(get_fns(src[mm.end():j]))
                for op in ('store', 'swap', 'compare_exchange', 'compare_exchange_weak', 'compare_exchange_tag'):
                    if op not in fns:
                        raise TranslateError("%s::%s not found" % (tyname, op))
                    text = _strip_macros(fns[op][2])
                    text = re.sub(r"\b(?:ptr|new|desired)\s*\.\s*ptr\b", "H", text)
                    text = re.sub(r"\b(?:ptr|new|desired)\s*\.\s*into_raw\s*\(\s*\)", "H", text)
                    text = re.sub(r"\bexpected\s*\.\s*ptr\b", "EX", text)
                    emx = cell_emitter()
                    env = {'H': 'Self', 'EX': 'Self', '$val:H': 'h', '$val:EX': 'ex', 'desired_tag': 'usize', '$val:desired_tag': 'tag',
                           'current_raw': 'Self', '$val:current_raw': 'cur'}
                    lets = proto_lets(text)
                    for name, exprs in lets.items():
                        if name in env or name == 'current_raw':
                            continue
                        if name == 'expected_raw':
                            # the loop variable: starts as the expected word, later the word actually stored
                            env['expected_raw'] = 'Self'
                            env['$val:expected_raw'] = 'ex'
                            continue
                        if len(exprs) == 1:
                            emx.lazy_lets[name] = exprs[0]
                    binders = "(k E h ex cur tag : Z)"
                    written = []
                    for mm in re.finditer(r"\.\s*link\s*\.\s*(swap|compare_exchange_weak|compare_exchange)\s*\(", text):
                        j = find_matching(text, mm.end() - 1, '(', ')')
                        a_ = _split_args(text[mm.end():j])
                        if mm.group(1) == 'swap':
                            written.append(('word', a_[0]))
                        else:
                            written.append(('expected', a_[0]))
                            written.append(('word', a_[1]))
                    words = [emx.emit(P(tokenize(x)).parse_expr(), env, 'ptr')[0] for kind, x in written if kind == 'word']
                    exps = [emx.emit(P(tokenize(x)).parse_expr(), env, 'ptr')[0] for kind, x in written if kind == 'expected']
                    conds = []
                    for kind, srcc in proto_conds(text):
                        if kind != 'cond' or srcc.startswith('let '):
                            continue
                        try:
                            conds.append(emx.emit(P(tokenize(srcc)).parse_expr(), env, 'bool')[0])
                        except TranslateError:
                            pass        # tests on the old pointer (`if let Some(cnt) = ..`) are not part of this table
                    c += "Definition %s_%s_words %s : list Z := [%s].\n" % (cname, op, binders, "; ".join(words))
                    c += "Definition %s_%s_expected %s : list Z := [%s].\n" % (cname, op, binders, "; ".join(exps))
                    c += "Definition %s_%s_retry %s : list bool := [%s].\n" % (cname, op, binders, "; ".join(conds))
                c += "\n"
            files['CellProtoW.v'] = c
        except TranslateError as ex:
            failed['CellProtoW.v'] = str(ex)
    except TranslateError as ex:
        failed['TaggedW.v'] = str(ex)
    except (NameError, KeyError, UnboundLocalError) as ex:
        failed['TaggedW.v'] = 'depends on a part of the source that could not be translated (%s)' % ex
    # ---------------- EpochW.v
    try:
        ep_fns = get_fns(get_impl(epoch, r"impl\s+Epoch"))
        sigs = {n: (v[0], v[1]) for n, v in ep_fns.items()}

        class EpochEmitter(Emitter):
            def emit_call(self, e, env, expected):
                f, args = e[1], e[2]
                if f[0] == 'path' and f[1] == ['Self', 'default'] and not args:
                    return ('0', 'Self')
                return Emitter.emit_call(self, e, env, expected)

        eme = EpochEmitter({}, sigs, 'usize', ['data'], fn_prefix='e_')
        eme.all_consts.update({c[0]: (c[1], c[2]) for c in get_consts(epoch)})
        s = HEADER % "src/ebr_impl/epoch.rs (impl Epoch)" + "Require Import Params.\n\n"
        s += translate_fns(ep_fns, ['starting', 'wrapping_sub', 'is_pinned', 'pinned', 'unpinned', 'successor', 'value'], eme, None) + "\n"
        s += "\n(* SealedBag::is_expired : global_epoch.wrapping_sub(self.epoch) >= EXPIRE_AFTER *)\n"
        s += "Definition is_expired (bag_epoch global_epoch : Z) : bool :=\n  e_wrapping_sub global_epoch bag_epoch >=? EXPIRE_AFTER.\n"
        files['EpochW.v'] = s
    except TranslateError as ex:
        failed['EpochW.v'] = str(ex)
    except (NameError, KeyError, UnboundLocalError) as ex:
        failed['EpochW.v'] = 'depends on a part of the source that could not be translated (%s)' % ex
    # ---------------- EbrProtoW.v : the decisions of the EBR core (internal.rs), function by function
    try:
        files['EbrProtoW.v'] = gen_ebrproto(internal, eme, ep_fns)
    except TranslateError as ex:
        failed['EbrProtoW.v'] = str(ex)
    except (NameError, KeyError, UnboundLocalError) as ex:
        failed['EbrProtoW.v'] = 'depends on a part of the source that could not be translated (%s)' % ex
    # ---------------- ApiCallsW.v : which count operations every entry point of strong.rs / weak.rs performs
    try:
        files['ApiCallsW.v'] = gen_apicalls(rd('src/strong.rs'), rd('src/weak.rs'))
    except TranslateError as ex:
        failed['ApiCallsW.v'] = str(ex)
    except (NameError, KeyError, UnboundLocalError) as ex:
        failed['ApiCallsW.v'] = 'depends on a part of the source that could not be translated (%s)' % ex
    # ---------------- DeferredW.v : when Deferred::new stores a closure inline in its Data buffer
    try:
        dfn = get_fns(get_impl(deferred, r"impl\s+Deferred"))
        if 'new' not in dfn:
            raise TranslateError("Deferred::new not found")
        body = _strip_macros(dfn['new'][2])
        body = re.sub(r"(?:core\s*::\s*)?(?:mem\s*::\s*)?size_of\s*::\s*<\s*Data\s*>\s*\(\s*\)", "DATA_BYTES", body)
        body = re.sub(r"(?:core\s*::\s*)?(?:mem\s*::\s*)?align_of\s*::\s*<\s*Data\s*>\s*\(\s*\)", "DATA_ALIGN", body)
        body = re.sub(r"(?:core\s*::\s*)?(?:mem\s*::\s*)?size_of\s*::\s*<\s*F\s*>\s*\(\s*\)", "FSIZE", body)
        body = re.sub(r"(?:core\s*::\s*)?(?:mem\s*::\s*)?align_of\s*::\s*<\s*F\s*>\s*\(\s*\)", "FALIGN", body)
        body = re.sub(r"(?:core\s*::\s*)?(?:mem\s*::\s*)?size_of\s*::\s*<\s*usize\s*>\s*\(\s*\)", "8", body)
        conds = [c_ for k_, c_ in proto_conds(body) if k_ == 'cond']
        if not conds:
            raise TranslateError("Deferred::new: the inline/boxed decision was not found")
        emd2 = Emitter({'DATA_WORDS': 'usize'}, {}, 'usize', [])
        for name, exprs in proto_lets(body).items():
            if len(exprs) == 1 and '{' not in exprs[0] and 'uninit' not in exprs[0] and 'Box' not in exprs[0] and 'ptr::' not in exprs[0]:
                emd2.lazy_lets[name] = exprs[0]
        envd2 = {'FSIZE': 'usize', 'FALIGN': 'usize', 'DATA_BYTES': 'usize', 'DATA_ALIGN': 'usize',
                 '$val:FSIZE': 'size', '$val:FALIGN': 'align', '$val:DATA_BYTES': '(8 * DATA_WORDS)', '$val:DATA_ALIGN': '8'}
        v, _ = emd2.emit(P(tokenize(conds[0])).parse_expr(), envd2, 'bool')
        d = HEADER % "src/ebr_impl/deferred.rs (Deferred::new: inline or boxed)" + "Require Import Params.\n\n"
        d += "(* `if %s` : the closure (of `size` bytes, alignment `align`) is written into the %s-word Data buffer;\n   otherwise it is boxed.  size_of::<Data>() = 8 * DATA_WORDS, align_of::<Data>() = 8 on the 64-bit targets modelled *)\n" % (" ".join(conds[0].split()), 'DATA_WORDS')
        d += "Definition stored_inline (size align : Z) : bool :=\n  %s.\n" % v
        files['DeferredW.v'] = d
    except TranslateError as ex:
        failed['DeferredW.v'] = str(ex)
    except (NameError, KeyError, UnboundLocalError) as ex:
        failed['DeferredW.v'] = 'depends on a part of the source that could not be translated (%s)' % ex
    # ---------------- GuardCallsW.v : the order in which the guard / handle functions call the modelled primitives
    try:
        guard_src = rd('src/ebr_impl/guard.rs')
        lf = get_fns(get_impl(internal, r"impl\s+Local"))
        gf = get_fns(get_impl(guard_src, r"impl\s+Guard"))

        def calls_of(body):
            """modelled calls in execution order: a `defer! { .. }` block runs at the end of the enclosing body; a guard bound
            by `let g = &self.pin();` inside a block is dropped (unpin) at the end of that block"""
            t = _strip_macros(body)
            t = re.sub(r"debug_assert(?:_eq)?!\s*\([^;]*\);", "", t)
            deferred = ''
            md = re.search(r"\bdefer!\s*\{", t)
            if md:
                j = find_matching(t, md.end() - 1)
                deferred = t[md.end():j]
                t = t[:md.start()] + t[j + 1:]
            # a block that binds a guard: insert the drop at its end
            mg = re.search(r"\{\s*let\s+\w+\s*=\s*&\s*self\s*\.\s*pin\s*\(\s*\)\s*;", t)
            if mg:
                j = find_matching(t, mg.start())
                t = t[:j] + " @DROPGUARD; " + t[j:]
            t = t + " " + deferred
            out = []
            for m_ in re.finditer(r"(acquire_handle|release_handle|unpin|repin_without_collect|pin|push_to_global|schedule_collection)\s*\(|handle_count\s*\.\s*set\s*\(\s*(\d+)\s*\)|entry\s*\.\s*delete\s*\(|@DROPGUARD|\bf\s*\(\s*\)", t):
                tok = m_.group(0)
                if tok.startswith('@DROPGUARD'):
                    out.append('KUnpin')
                elif m_.group(2) is not None:
                    out.append('(KSetHc %s)' % m_.group(2))
                elif tok.startswith('entry'):
                    out.append('KDelete')
                elif re.match(r"f\s*\(", tok):
                    out.append('KUser')
                else:
                    out.append({'acquire_handle': 'KAcquire', 'release_handle': 'KRelease', 'unpin': 'KUnpin', 'pin': 'KPin',
                                'repin_without_collect': 'KRepin', 'push_to_global': 'KPushToGlobal',
                                'schedule_collection': 'KSchedule'}[m_.group(1)])
            return out

        g = HEADER % "src/ebr_impl/internal.rs, src/ebr_impl/guard.rs (call order of the guard / handle functions)"
        g += ("Inductive gcall := KAcquire | KRelease | KUnpin | KPin | KRepin | KPushToGlobal | KSchedule | KSetHc (n : Z) | KDelete | KUser.\n\n")
        for nm, table, key in (('repin', lf, 'repin'), ('flush', lf, 'flush'), ('finalize', lf, 'finalize'), ('reactivate_after', gf, 'reactivate_after')):
            if key not in table:
                raise TranslateError("fn %s not found" % key)
            g += "Definition G_%s : list gcall := [%s].\n" % (nm, "; ".join(calls_of(table[key][2])))
        files['GuardCallsW.v'] = g
    except TranslateError as ex:
        failed['GuardCallsW.v'] = str(ex)
    except (NameError, KeyError, UnboundLocalError) as ex:
        failed['GuardCallsW.v'] = 'depends on a part of the source that could not be translated (%s)' % ex
    # ---------------- OrderW.v : the memory orderings the source uses, per file and kind of atomic access.
    try:
        # Every model is sequentially consistent; what entitles it to be is the set of orderings and fences of the
        # source.  They are tabulated here and compared (OrderP.v) with the reference table OrderRef.v the models were
        # written against: an access may be strengthened, never weakened or dropped.
        ORD = ['Relaxed', 'Acquire', 'Release', 'AcqRel', 'SeqCst']
        order_files = ['src/utils.rs', 'src/strong.rs', 'src/weak.rs', 'src/ebr_impl/internal.rs', 'src/ebr_impl/guard.rs',
                       'src/ebr_impl/collector.rs', 'src/ebr_impl/default.rs', 'src/ebr_impl/deferred.rs',
                       'src/ebr_impl/pointers.rs', 'src/ebr_impl/epoch.rs', 'src/ebr_impl/sync/queue.rs',
                       'src/ebr_impl/sync/list.rs', 'src/ebr_impl/sync/once_lock.rs']
        rows = []
        for rel in order_files:
            try:
                src = rd(rel)
            except OSError:
                raise TranslateError("source file %s not found" % rel)
            # instrumentation is not part of the library
            src = re.sub(r"#\[cfg\(circ_verif\)\][^\n]*\n[^\n]*", "", src)
            src = re.sub(r'"(?:[^"\\]|\\.)*"', '""', src)
            table = {}
            for mo in re.finditer(r"\b(Relaxed|Acquire|Release|AcqRel|SeqCst)\b", src):
                pos = mo.start()
                pre = src[max(0, pos - 12):pos]
                if re.search(r"\buse\b[^;]*$", src[max(0, src.rfind(';', 0, pos)):pos]) or re.search(r"\buse\b[^;]*$", src[max(0, src.rfind('}', 0, pos)):pos]) and ';' not in src[src.rfind('}', 0, pos):pos]:
                    continue    # `use core::sync::atomic::Ordering::{...};`
                # innermost enclosing call
                depth, i, commas = 0, pos - 1, 0
                ident = 'none'
                while i >= 0:
                    ch = src[i]
                    if ch in ')]}':
                        depth += 1
                    elif ch in '([{':
                        if depth == 0:
                            if ch == '(':
                                mi = re.search(r"(\w+)\s*(?:::\s*<[^()]*>\s*)?$", src[:i])
                                ident = mi.group(1) if mi else 'none'
                            else:
                                ident = 'none'
                            break
                        depth -= 1
                    elif ch == ',' and depth == 0:
                        commas += 1
                    elif ch == ';' and depth == 0:
                        break
                    i -= 1
                key = "%s#%d" % (ident, commas)
                table.setdefault(key, [0] * 5)[ORD.index(mo.group(1))] += 1
            for key in sorted(table):
                rows.append((rel, key, table[key]))
        s = HEADER % "the atomic accesses of src/**/*.rs (orderings per file and kind of access)"
        s += "From Coq Require Import String.\nLocal Open Scope string_scope.\n\n"
        s += "(* (file, method#argument position, [Relaxed; Acquire; Release; AcqRel; SeqCst] occurrence counts) *)\n"
        s += "Definition order_table : list (string * string * list Z) :=\n  [ "
        s += ";\n    ".join('("%s", "%s", [%s])' % (f, k, "; ".join(str(c) for c in cs)) for f, k, cs in rows)
        s += " ].\n"
        files['OrderW.v'] = s
    except TranslateError as ex:
        failed['OrderW.v'] = str(ex)
    except (NameError, KeyError, UnboundLocalError) as ex:
        failed['OrderW.v'] = 'depends on a part of the source that could not be translated (%s)' % ex
    return files, failed


def main():
    repo = '/repo'
    out = os.path.join(os.path.dirname(os.path.abspath(__file__)), '..', 'coq', 'Gen')
    args = sys.argv[1:]
    while args:
        a = args.pop(0)
        if a == '--repo':
            repo = args.pop(0)
        elif a == '--out':
            out = args.pop(0)
    try:
        files, failed = gen(repo)
    except TranslateError as ex:
        sys.stderr.write("rs2v: TRANSLATION FAILED: %s\n" % ex)
        return 2
    # a file that cannot be regenerated keeps its last good content; the caller decides whether the property at hand
    # depends on it (exit code 3 + one FAILED line per file)
    for name, msg in sorted(failed.items()):
        sys.stderr.write("rs2v: TRANSLATION FAILED %s: %s\n" % (name, msg))
    os.makedirs(out, exist_ok=True)
    changed = []
    for name, content in files.items():
        path = os.path.join(out, name)
        old = None
        if os.path.exists(path):
            with open(path) as f:
                old = f.read()
        if old != content:
            with open(path, 'w') as f:
                f.write(content)
            changed.append(name)
    print("rs2v: %d files, changed: %s" % (len(files), ",".join(changed) or "none"))
    return 3 if failed else 0


if __name__ == '__main__':
    sys.exit(main())
