#!/bin/bash
cd /verif
for d in seeded/*/*/; do
  id=$(echo $d | cut -d/ -f2); v=$(echo $d | cut -d/ -f3)
  echo "== $id/$v"
  python3 tools/seedtest.py $d/patch.diff $id --keep $id/$v 2>&1 | grep "DETECTED\|MISSED\|refusing\|does not apply\|Error\|Traceback" | head -3
done
echo SWEEP-DONE
