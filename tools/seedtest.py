#!/usr/bin/env python3
"""seedtest.py <patch.diff> <Cxx> [<Cyy> ...] [--tier quick|thorough] [--suite]
Applies a seeded change to /repo's working tree, (optionally) runs the crate's own test suite with the
guard off, runs ./check for the given properties with evidence redirected to a scratch directory, and
always restores /repo (`git checkout -- .`).  Prints one line per property: DETECTED / MISSED."""
import os, subprocess, sys, tempfile, json
V = os.path.dirname(os.path.dirname(os.path.abspath(__file__)))
args = sys.argv[1:]
patch = os.path.abspath(args[0]); rest = args[1:]
tier = 'quick'; suite = False; props = []; keep = None
i = 0
while i < len(rest):
    if rest[i] == '--tier': tier = rest[i+1]; i += 2
    elif rest[i] == '--suite': suite = True; i += 1
    elif rest[i] == '--keep': keep = rest[i+1]; i += 2      # e.g. C19/a : store under /verif/seeded/C19/a
    else: props.append(rest[i]); i += 1
def sh(cmd, **kw):
    return subprocess.run(cmd, shell=True, stdout=subprocess.PIPE, stderr=subprocess.STDOUT, **kw)
st = sh("git -C /repo status --porcelain").stdout.decode().strip()
if st:
    print("refusing: /repo working tree is not clean:\n" + st); sys.exit(2)
r = sh("git -C /repo apply %s" % patch)
if r.returncode != 0:
    print("patch does not apply:", r.stdout.decode()); sys.exit(2)
res = {}
try:
    if suite:
        r = sh("cd /repo && cargo test --workspace --no-fail-fast --offline 2>&1 | grep -E '^test result|FAILED|panicked' | head -20")
        out = r.stdout.decode()
        res['suite'] = 'green' if ('FAILED' not in out and 'failed; ' in out and all(' 0 failed' in l for l in out.splitlines() if l.startswith('test result'))) else 'NOT GREEN'
        print("suite:", res['suite']); print(out)
    ev = tempfile.mkdtemp(prefix='seed_ev_')
    for p in props:
        env = dict(os.environ, VERIF_EVIDENCE_DIR=ev)
        r = sh("./check %s --tier %s" % (p, tier), cwd=V, env=env)
        out = r.stdout.decode()
        viol = [l for l in out.splitlines() if l.startswith('VIOLATION')]
        fails = [l for l in out.splitlines() if l.startswith('FAIL[')]
        res[p] = {'rc': r.returncode, 'violation': viol, 'fails': fails[:8]}
        print("%s: %s rc=%d" % (p, 'DETECTED' if (r.returncode == 1 and viol) else 'MISSED', r.returncode))
        for l in fails[:6] + viol:
            print("   ", l[:260])
finally:
    sh("git -C /repo checkout -- .")
    sh("python3 %s/tools/rs2v.py --repo /repo --out %s/coq/Gen" % (V, V))    # the generated files follow the restored tree again
    sh("rm -rf /tmp/seed_ev_*")
print(json.dumps(res)[:3000])
if keep:
    import shutil
    src = os.path.dirname(patch)
    dst = os.path.join(V, 'seeded', keep)
    os.makedirs(dst, exist_ok=True)
    if os.path.realpath(src) != os.path.realpath(dst):
        for f in os.listdir(src):
            if os.path.isfile(os.path.join(src, f)):
                shutil.copy(os.path.join(src, f), os.path.join(dst, f))
    mp = os.path.join(dst, 'meta.json')
    try:
        meta = json.load(open(mp))
    except (OSError, ValueError):
        meta = {}
    meta['verif_result'] = {'tier': tier, 'suite_with_patch': res.get('suite', 'not run here'),
                            'checks': {p: {'detected': bool(res[p]['rc'] == 1 and res[p]['violation']),
                                           'violation_line': (res[p]['violation'] or [''])[0],
                                           'first_failures': res[p]['fails'][:4]} for p in props}}
    json.dump(meta, open(mp, 'w'), indent=1)
    print("kept in", dst)
